//! Own visitor over the public Starlark AST: S-expression printer (with or without spans) and the
//! span well-formedness predicate of C05.

use starlark::codemap::Span;
use starlark::syntax::ast::*;
use starlark_syntax::codemap::CodeMap;
use starlark_syntax::lexer::Lexer;
use starlark_syntax::lexer::Token;
use starlark_syntax::lexer::TokenInt;

pub struct Walk<'a> {
    pub src: &'a str,
    pub with_spans: bool,
    pub check_spans: bool,
    /// Normalise for the print round trip: flatten nested statement lists, render f-strings as the
    /// desugared `.format` call.
    pub normalize: bool,
    pub out: String,
    pub problems: Vec<String>,
    pub nodes: usize,
    pub max_depth: usize,
    depth: usize,
}

pub fn span_in_file(src: &str, sp: Span) -> bool {
    let (b, e) = (sp.begin().get() as usize, sp.end().get() as usize);
    b <= e && e <= src.len() && src.is_char_boundary(b) && src.is_char_boundary(e)
}

impl<'a> Walk<'a> {
    pub fn new(src: &'a str, with_spans: bool, check_spans: bool) -> Walk<'a> {
        Walk { src, with_spans, check_spans, normalize: false, out: String::new(), problems: Vec::new(), nodes: 0, max_depth: 0, depth: 0 }
    }

    fn problem(&mut self, s: String) {
        if self.problems.len() < 5 {
            self.problems.push(s);
        }
    }

    fn text(&self, sp: Span) -> &'a str {
        self.src.get(sp.begin().get() as usize..sp.end().get() as usize).unwrap_or("<bad-span>")
    }

    /// Opens a node: checks its span against the parent, writes "(name@b-e".
    fn open(&mut self, name: &str, sp: Span, parent: Option<Span>) {
        self.nodes += 1;
        self.depth += 1;
        self.max_depth = self.max_depth.max(self.depth);
        if self.check_spans {
            if !span_in_file(self.src, sp) {
                self.problem(format!("{name}: span {}..{} not inside the file (len {}) or not on char boundaries", sp.begin().get(), sp.end().get(), self.src.len()));
            } else if let Some(p) = parent {
                if !(p.begin() <= sp.begin() && sp.end() <= p.end()) {
                    self.problem(format!(
                        "{name}: span {}..{} ({:?}) not inside parent span {}..{}",
                        sp.begin().get(),
                        sp.end().get(),
                        crate::engine::truncate(self.text(sp), 40),
                        p.begin().get(),
                        p.end().get()
                    ));
                }
            }
        }
        self.out.push('(');
        self.out.push_str(name);
        if self.with_spans {
            self.out.push_str(&format!("@{}-{}", sp.begin().get(), sp.end().get()));
        }
    }
    fn close(&mut self) {
        self.depth -= 1;
        self.out.push(')');
    }
    fn atom(&mut self, s: &str) {
        self.out.push(' ');
        self.out.push_str(s);
    }
    fn qstr(&mut self, s: &str) {
        self.out.push(' ');
        crate::sl::enc_str(s, &mut self.out);
    }

    fn ident_exact(&mut self, what: &str, name: &str, sp: Span) {
        if self.check_spans && span_in_file(self.src, sp) && self.text(sp) != name {
            self.problem(format!("{what} {name:?}: span {}..{} covers {:?}", sp.begin().get(), sp.end().get(), crate::engine::truncate(self.text(sp), 40)));
        }
    }

    /// A literal's span must cover exactly one literal token.
    fn literal_exact(&mut self, what: &str, sp: Span, matches: impl Fn(&Token) -> bool) {
        if !self.check_spans || !span_in_file(self.src, sp) {
            return;
        }
        let text = self.text(sp);
        if text.is_empty() || text.starts_with(char::is_whitespace) || text.ends_with(char::is_whitespace) {
            self.problem(format!("{what} literal span {}..{} covers {:?} (empty or padded)", sp.begin().get(), sp.end().get(), crate::engine::truncate(text, 40)));
            return;
        }
        let cm = CodeMap::new("lit".to_owned(), text.to_owned());
        let toks: Vec<Token> = Lexer::new(text, &starlark::syntax::Dialect::AllOptionsInternal, cm)
            .filter_map(|t| t.ok())
            .map(|t| t.1)
            .filter(|t| !matches!(t, Token::Newline | Token::Indent | Token::Dedent))
            .collect();
        if !(toks.len() == 1 && matches(&toks[0])) {
            self.problem(format!(
                "{what} literal span {}..{} covers {:?} which re-lexes to {} token(s) {:?}",
                sp.begin().get(),
                sp.end().get(),
                crate::engine::truncate(text, 60),
                toks.len(),
                toks.iter().take(3).collect::<Vec<_>>()
            ));
        }
    }

    pub fn module(&mut self, stmt: &AstStmt) {
        // The root may extend over trailing newlines; no parent.
        if self.normalize {
            self.out.push_str("(block");
            self.flat(stmt, None);
            self.out.push(')');
        } else {
            self.stmt(stmt, None);
        }
    }

    fn block(&mut self, s: &AstStmt, parent: Option<Span>) {
        if self.normalize {
            self.out.push_str(" (block");
            self.flat(s, parent);
            self.out.push(')');
        } else {
            self.out.push(' ');
            self.stmt(s, parent);
        }
    }

    fn flat(&mut self, s: &AstStmt, parent: Option<Span>) {
        match &s.node {
            StmtP::Statements(v) => {
                for x in v {
                    self.flat(x, if self.check_spans { Some(s.span) } else { parent });
                }
            }
            _ => {
                self.out.push(' ');
                self.stmt(s, parent);
            }
        }
    }

    pub fn stmt(&mut self, s: &AstStmt, parent: Option<Span>) {
        let sp = s.span;
        let me = Some(sp);
        match &s.node {
            StmtP::Break => {
                self.open("break", sp, parent);
                self.close()
            }
            StmtP::Continue => {
                self.open("continue", sp, parent);
                self.close()
            }
            StmtP::Pass => {
                self.open("pass", sp, parent);
                self.close()
            }
            StmtP::Return(e) => {
                self.open("return", sp, parent);
                if let Some(e) = e {
                    self.out.push(' ');
                    self.expr(e, me);
                }
                self.close()
            }
            StmtP::Expression(e) => {
                self.open("expr", sp, parent);
                self.out.push(' ');
                self.expr(e, me);
                self.close()
            }
            StmtP::Assign(a) => {
                self.open("assign", sp, parent);
                self.out.push(' ');
                self.target(&a.lhs, me);
                if let Some(t) = &a.ty {
                    self.out.push_str(" (type ");
                    self.expr(&t.node.expr, me);
                    self.out.push(')');
                    if self.check_spans && t.span != t.node.expr.span {
                        // the type expression wrapper and its expression cover the same text
                        if !span_in_file(self.src, t.span) {
                            self.problem("type expr span outside file".into());
                        }
                    }
                }
                self.out.push(' ');
                self.expr(&a.rhs, me);
                self.close()
            }
            StmtP::AssignModify(t, op, e) => {
                self.open("augassign", sp, parent);
                self.atom(format!("{op}").trim());
                self.out.push(' ');
                self.target(t, me);
                self.out.push(' ');
                self.expr(e, me);
                self.close()
            }
            StmtP::Statements(v) => {
                if self.normalize {
                    self.open("block", sp, parent);
                    self.flat(s, parent);
                    self.close();
                } else {
                    self.open("stmts", sp, parent);
                    for x in v {
                        self.out.push(' ');
                        self.stmt(x, me);
                    }
                    self.close()
                }
            }
            StmtP::If(c, body) => {
                self.open("if", sp, parent);
                self.out.push(' ');
                self.expr(c, me);
                self.block(body, me);
                self.close()
            }
            StmtP::IfElse(c, b) => {
                self.open("ifelse", sp, parent);
                self.out.push(' ');
                self.expr(c, me);
                self.block(&b.0, me);
                self.block(&b.1, me);
                self.close()
            }
            StmtP::For(f) => {
                self.open("for", sp, parent);
                self.out.push(' ');
                self.target(&f.var, me);
                self.out.push(' ');
                self.expr(&f.over, me);
                self.block(&f.body, me);
                self.close()
            }
            StmtP::Def(d) => {
                self.open("def", sp, parent);
                self.atom(&d.name.node.ident);
                self.ident_exact("def name", &d.name.node.ident, d.name.span);
                self.span_child("def name", d.name.span, me);
                self.out.push_str(" (params");
                for p in &d.params {
                    self.out.push(' ');
                    self.param(p, me);
                }
                self.out.push(')');
                if let Some(r) = &d.return_type {
                    self.out.push_str(" (returns ");
                    self.expr(&r.node.expr, me);
                    self.out.push(')');
                }
                self.block(&d.body, me);
                self.close()
            }
            StmtP::Load(l) => {
                self.open("load", sp, parent);
                self.qstr(&l.module.node);
                self.span_child("load module", l.module.span, me);
                self.literal_exact("load module string", l.module.span, |t| matches!(t, Token::String(_)));
                for a in &l.args {
                    self.out.push_str(" (");
                    self.out.push_str(&a.local.node.ident);
                    self.qstr(&a.their.node);
                    self.out.push(')');
                    // The local name of `load("m", "sym")` deliberately carries the span of the string
                    // literal: exempt from "spells exactly the identifier".
                    self.span_child("load local", a.local.span, me);
                    self.span_child("load their", a.their.span, me);
                    self.literal_exact("load symbol string", a.their.span, |t| matches!(t, Token::String(_)));
                }
                self.close()
            }
        }
    }

    fn span_child(&mut self, what: &str, sp: Span, parent: Option<Span>) {
        if !self.check_spans {
            return;
        }
        if !span_in_file(self.src, sp) {
            self.problem(format!("{what}: span {}..{} not inside the file or not on char boundaries", sp.begin().get(), sp.end().get()));
        } else if let Some(p) = parent {
            if !(p.begin() <= sp.begin() && sp.end() <= p.end()) {
                self.problem(format!("{what}: span {}..{} not inside parent {}..{}", sp.begin().get(), sp.end().get(), p.begin().get(), p.end().get()));
            }
        }
    }

    fn param(&mut self, p: &AstParameter, parent: Option<Span>) {
        let sp = p.span;
        let me = Some(sp);
        match &p.node {
            ParameterP::Slash => {
                self.open("slash", sp, parent);
                self.close()
            }
            ParameterP::NoArgs => {
                self.open("barestar", sp, parent);
                self.close()
            }
            ParameterP::Normal(n, ty, def) => {
                self.open("param", sp, parent);
                self.atom(&n.node.ident);
                self.ident_exact("parameter", &n.node.ident, n.span);
                self.span_child("parameter name", n.span, me);
                if let Some(t) = ty {
                    self.out.push_str(" (type ");
                    self.expr(&t.node.expr, me);
                    self.out.push(')');
                }
                if let Some(d) = def {
                    self.out.push(' ');
                    self.expr(d, me);
                }
                self.close()
            }
            ParameterP::Args(n, ty) | ParameterP::KwArgs(n, ty) => {
                self.open(if matches!(p.node, ParameterP::Args(..)) { "star" } else { "starstar" }, sp, parent);
                self.atom(&n.node.ident);
                self.ident_exact("parameter", &n.node.ident, n.span);
                self.span_child("parameter name", n.span, me);
                if let Some(t) = ty {
                    self.out.push_str(" (type ");
                    self.expr(&t.node.expr, me);
                    self.out.push(')');
                }
                self.close()
            }
        }
    }

    fn target(&mut self, t: &AstAssignTarget, parent: Option<Span>) {
        let sp = t.span;
        let me = Some(sp);
        match &t.node {
            AssignTargetP::Tuple(v) => {
                self.open("tuple", sp, parent);
                for x in v {
                    self.out.push(' ');
                    self.target(x, me);
                }
                self.close()
            }
            AssignTargetP::Index(b) => {
                self.open("index", sp, parent);
                self.out.push(' ');
                self.expr(&b.0, me);
                self.out.push(' ');
                self.expr(&b.1, me);
                self.close()
            }
            AssignTargetP::Dot(e, n) => {
                self.open("dot", sp, parent);
                self.out.push(' ');
                self.expr(e, me);
                self.atom(&n.node);
                self.ident_exact("attribute", &n.node, n.span);
                self.span_child("attribute", n.span, me);
                self.close()
            }
            AssignTargetP::Identifier(i) => {
                self.open("id", sp, parent);
                self.atom(&i.node.ident);
                self.ident_exact("assign identifier", &i.node.ident, i.span);
                self.span_child("assign identifier", i.span, me);
                self.close()
            }
        }
    }

    fn clauses(&mut self, first: &ForClause, rest: &[Clause], me: Option<Span>) {
        self.out.push_str(" (for ");
        self.target(&first.var, me);
        self.out.push(' ');
        self.expr(&first.over, me);
        self.out.push(')');
        for c in rest {
            match c {
                ClauseP::For(f) => {
                    self.out.push_str(" (for ");
                    self.target(&f.var, me);
                    self.out.push(' ');
                    self.expr(&f.over, me);
                    self.out.push(')');
                }
                ClauseP::If(e) => {
                    self.out.push_str(" (if ");
                    self.expr(e, me);
                    self.out.push(')');
                }
            }
        }
    }

    pub fn expr(&mut self, e: &AstExpr, parent: Option<Span>) {
        let sp = e.span;
        let me = Some(sp);
        match &e.node {
            ExprP::Tuple(v) => {
                self.open("tuple", sp, parent);
                for x in v {
                    self.out.push(' ');
                    self.expr(x, me);
                }
                self.close()
            }
            ExprP::Dot(x, n) => {
                self.open("dot", sp, parent);
                self.out.push(' ');
                self.expr(x, me);
                self.atom(&n.node);
                self.ident_exact("attribute", &n.node, n.span);
                self.span_child("attribute", n.span, me);
                self.close()
            }
            ExprP::Call(f, args) => {
                self.open("call", sp, parent);
                self.out.push(' ');
                self.expr(f, me);
                // Canonical argument order for tree comparison: positional and *args in source order, then
                // named and **kwargs in source order (CPython's ast stores keywords separately).
                let mut ordered: Vec<&AstArgument> = args.args.iter().collect();
                if self.normalize {
                    ordered.sort_by_key(|a| matches!(a.node, ArgumentP::Named(..) | ArgumentP::KwArgs(..)));
                }
                for a in ordered {
                    let asp = a.span;
                    let ame = Some(asp);
                    match &a.node {
                        ArgumentP::Positional(x) => {
                            self.out.push(' ');
                            self.open("pos", asp, me);
                            self.out.push(' ');
                            self.expr(x, ame);
                            self.close()
                        }
                        ArgumentP::Named(n, x) => {
                            self.out.push(' ');
                            self.open("named", asp, me);
                            self.atom(&n.node);
                            self.ident_exact("argument name", &n.node, n.span);
                            self.span_child("argument name", n.span, ame);
                            self.out.push(' ');
                            self.expr(x, ame);
                            self.close()
                        }
                        ArgumentP::Args(x) => {
                            self.out.push(' ');
                            self.open("star", asp, me);
                            self.out.push(' ');
                            self.expr(x, ame);
                            self.close()
                        }
                        ArgumentP::KwArgs(x) => {
                            self.out.push(' ');
                            self.open("starstar", asp, me);
                            self.out.push(' ');
                            self.expr(x, ame);
                            self.close()
                        }
                    }
                }
                self.close()
            }
            ExprP::Index(b) => {
                self.open("index", sp, parent);
                self.out.push(' ');
                self.expr(&b.0, me);
                self.out.push(' ');
                self.expr(&b.1, me);
                self.close()
            }
            ExprP::Index2(b) => {
                self.open("index2", sp, parent);
                self.out.push(' ');
                self.expr(&b.0, me);
                self.out.push(' ');
                self.expr(&b.1, me);
                self.out.push(' ');
                self.expr(&b.2, me);
                self.close()
            }
            ExprP::Slice(x, a, b, c) => {
                self.open("slice", sp, parent);
                self.out.push(' ');
                self.expr(x, me);
                for o in [a, b, c] {
                    match o {
                        Some(o) => {
                            self.out.push(' ');
                            self.expr(o, me)
                        }
                        None => self.atom("_"),
                    }
                }
                self.close()
            }
            ExprP::Identifier(i) => {
                self.open("id", sp, parent);
                self.atom(&i.node.ident);
                self.ident_exact("identifier", &i.node.ident, i.span);
                self.span_child("identifier", i.span, me);
                self.ident_exact("identifier expr", &i.node.ident, sp);
                self.close()
            }
            ExprP::Lambda(l) => {
                self.open("lambda", sp, parent);
                self.out.push_str(" (params");
                for p in &l.params {
                    self.out.push(' ');
                    self.param(p, me);
                }
                self.out.push_str(") ");
                self.expr(&l.body, me);
                self.close()
            }
            ExprP::Literal(l) => match l {
                AstLiteral::Int(i) => {
                    self.open("int", sp, parent);
                    let val = match &i.node {
                        TokenInt::I32(x) => x.to_string(),
                        TokenInt::BigInt(b) => b.to_string(),
                    };
                    self.atom(&val);
                    self.span_child("int literal", i.span, me);
                    let want = i.node.clone();
                    self.literal_exact("int", i.span, move |t| matches!(t, Token::Int(x) if *x == want));
                    self.close()
                }
                AstLiteral::Float(f) => {
                    self.open("float", sp, parent);
                    self.atom(&format!("{:016x}", f.node.to_bits()));
                    self.span_child("float literal", f.span, me);
                    let want = f.node;
                    self.literal_exact("float", f.span, move |t| matches!(t, Token::Float(x) if x.to_bits() == want.to_bits()));
                    self.close()
                }
                AstLiteral::String(s) => {
                    self.open("str", sp, parent);
                    self.qstr(&s.node);
                    self.span_child("string literal", s.span, me);
                    let want = s.node.clone();
                    self.literal_exact("string", s.span, move |t| matches!(t, Token::String(x) if *x == want));
                    self.close()
                }
                AstLiteral::Bytes(b) => {
                    self.open("bytes", sp, parent);
                    self.atom(&format!("{:?}", b.node));
                    self.span_child("bytes literal", b.span, me);
                    let want = b.node.clone();
                    self.literal_exact("bytes", b.span, move |t| matches!(t, Token::Bytes(x) if *x == want));
                    self.close()
                }
                AstLiteral::Ellipsis => {
                    self.open("ellipsis", sp, parent);
                    self.close()
                }
            },
            ExprP::Not(x) => {
                self.open("not", sp, parent);
                self.out.push(' ');
                self.expr(x, me);
                self.close()
            }
            ExprP::Minus(x) => {
                self.open("neg", sp, parent);
                self.out.push(' ');
                self.expr(x, me);
                self.close()
            }
            ExprP::Plus(x) => {
                self.open("uplus", sp, parent);
                self.out.push(' ');
                self.expr(x, me);
                self.close()
            }
            ExprP::BitNot(x) => {
                self.open("invert", sp, parent);
                self.out.push(' ');
                self.expr(x, me);
                self.close()
            }
            ExprP::Op(l, op, r) => {
                self.open("binop", sp, parent);
                self.atom(binop_name(*op));
                self.out.push(' ');
                self.expr(l, me);
                self.out.push(' ');
                self.expr(r, me);
                self.close()
            }
            ExprP::If(b) => {
                // (cond, v1, v2) <=> v1 if cond else v2
                self.open("ifexp", sp, parent);
                self.out.push(' ');
                self.expr(&b.0, me);
                self.out.push(' ');
                self.expr(&b.1, me);
                self.out.push(' ');
                self.expr(&b.2, me);
                self.close()
            }
            ExprP::List(v) => {
                self.open("list", sp, parent);
                for x in v {
                    self.out.push(' ');
                    self.expr(x, me);
                }
                self.close()
            }
            ExprP::Dict(v) => {
                self.open("dict", sp, parent);
                for (k, x) in v {
                    self.out.push_str(" (");
                    self.expr(k, me);
                    self.out.push(' ');
                    self.expr(x, me);
                    self.out.push(')');
                }
                self.close()
            }
            ExprP::ListComprehension(x, f, rest) => {
                self.open("listcomp", sp, parent);
                self.out.push(' ');
                self.expr(x, me);
                self.clauses(f, rest, me);
                self.close()
            }
            ExprP::DictComprehension(kv, f, rest) => {
                self.open("dictcomp", sp, parent);
                self.out.push(' ');
                self.expr(&kv.0, me);
                self.out.push(' ');
                self.expr(&kv.1, me);
                self.clauses(f, rest, me);
                self.close()
            }
            ExprP::FString(f) => {
                if self.normalize {
                    // Display documents: "Write out the desugared form".
                    self.open("call", sp, parent);
                    self.out.push_str(" (dot (str");
                    self.qstr(&f.node.format.node);
                    self.out.push_str(") format)");
                    for x in &f.node.expressions {
                        self.out.push_str(" (pos ");
                        self.expr(x, None);
                        self.out.push(')');
                    }
                    self.close()
                } else {
                    self.open("fstring", sp, parent);
                    self.qstr(&f.node.format.node);
                    self.span_child("f-string", f.span, me);
                    for x in &f.node.expressions {
                        self.out.push(' ');
                        self.expr(x, me);
                    }
                    self.close()
                }
            }
        }
    }
}

pub fn binop_name(op: BinOp) -> &'static str {
    match op {
        BinOp::Or => "or",
        BinOp::And => "and",
        BinOp::Equal => "==",
        BinOp::NotEqual => "!=",
        BinOp::Less => "<",
        BinOp::Greater => ">",
        BinOp::LessOrEqual => "<=",
        BinOp::GreaterOrEqual => ">=",
        BinOp::In => "in",
        BinOp::NotIn => "notin",
        BinOp::Subtract => "-",
        BinOp::Add => "+",
        BinOp::Multiply => "*",
        BinOp::Percent => "%",
        BinOp::Divide => "/",
        BinOp::FloorDivide => "//",
        BinOp::BitAnd => "&",
        BinOp::BitOr => "|",
        BinOp::BitXor => "^",
        BinOp::LeftShift => "<<",
        BinOp::RightShift => ">>",
    }
}
