//! Shared engine: choice sequences, property trait, worker loop (proptest-driven), supervisor
//! (process isolation, crash attribution and shrinking), evidence and known-findings handling.

use std::collections::BTreeMap;
use std::collections::HashSet;
use std::io::Read;
use std::io::Seek;
use std::io::SeekFrom;
use std::io::Write;
use std::path::Path;
use std::path::PathBuf;
use std::process::Command;
use std::process::Stdio;
use std::time::Duration;
use std::time::Instant;

use proptest::strategy::Strategy;
use proptest::test_runner::Config;
use proptest::test_runner::RngSeed;
use proptest::test_runner::TestCaseError;
use proptest::test_runner::TestError;
use proptest::test_runner::TestRunner;
use serde_json::Value as J;
use serde_json::json;

pub const VERIF_DIR: &str = "/verif";
pub const WORK_DIR: &str = "/verif/target/svfwork";
pub const DEFAULT_SEED: u64 = 20260923;
pub const WORKER_STACK: usize = 16 << 20;

// ------------------------------------------------------------------------------------------
// Choice sequences

/// Cursor over a vector of u32 choices. Reading past the end yields 0 and every decision maps 0
/// to the simplest alternative, so truncating / zeroing the vector simplifies the case.
pub struct Choices<'a> {
    data: &'a [u32],
    pos: usize,
}

impl<'a> Choices<'a> {
    pub fn new(data: &'a [u32]) -> Choices<'a> {
        Choices { data, pos: 0 }
    }
    pub fn raw(&mut self) -> u32 {
        let v = self.data.get(self.pos).copied().unwrap_or(0);
        self.pos += 1;
        v
    }
    pub fn used(&self) -> usize {
        self.pos
    }
    pub fn exhausted(&self) -> bool {
        self.pos >= self.data.len()
    }
    /// Uniform in 0..n (n >= 1), monotone in the raw choice.
    pub fn below(&mut self, n: u32) -> u32 {
        if n <= 1 {
            self.raw();
            return 0;
        }
        ((self.raw() as u64 * n as u64) >> 32) as u32
    }
    pub fn idx(&mut self, n: usize) -> usize {
        self.below(n as u32) as usize
    }
    /// Inclusive range.
    pub fn range(&mut self, lo: i64, hi: i64) -> i64 {
        lo + self.below((hi - lo + 1) as u32) as i64
    }
    pub fn bool(&mut self) -> bool {
        self.raw() >= 0x8000_0000
    }
    /// True with probability num/den; raw 0 gives false.
    pub fn chance(&mut self, num: u32, den: u32) -> bool {
        self.below(den) >= den - num
    }
    pub fn pick<'b, T>(&mut self, xs: &'b [T]) -> &'b T {
        &xs[self.idx(xs.len())]
    }
    pub fn pick_s<'b>(&mut self, xs: &[&'b str]) -> &'b str {
        xs[self.idx(xs.len())]
    }
    /// Index drawn with the given weights; raw 0 gives the first entry with non-zero weight.
    pub fn weighted(&mut self, ws: &[u32]) -> usize {
        let total: u32 = ws.iter().sum();
        let mut x = self.below(total.max(1));
        for (i, w) in ws.iter().enumerate() {
            if x < *w {
                return i;
            }
            x -= *w;
        }
        ws.len() - 1
    }
    pub fn u64(&mut self) -> u64 {
        ((self.raw() as u64) << 32) | self.raw() as u64
    }
}

pub fn fnv(s: &[u8]) -> u64 {
    let mut h: u64 = 0xcbf29ce484222325;
    for b in s {
        h ^= *b as u64;
        h = h.wrapping_mul(0x100000001b3);
    }
    h
}

// ------------------------------------------------------------------------------------------
// Property interface

#[derive(Clone, Copy, PartialEq, Eq, Debug)]
pub enum Tier {
    Quick,
    Thorough,
}

impl Tier {
    pub fn name(self) -> &'static str {
        match self {
            Tier::Quick => "quick",
            Tier::Thorough => "thorough",
        }
    }
    pub fn parse(s: &str) -> Tier {
        if s == "thorough" { Tier::Thorough } else { Tier::Quick }
    }
}

#[derive(Clone, Debug)]
pub struct Failure {
    /// Signature id: a precise predicate over the failing case. Looked up among the `open:` lines of
    /// known_findings.txt; anything not listed is a violation.
    pub class: String,
    pub msg: String,
}

#[derive(Default, Debug)]
pub struct CaseResult {
    pub labels: Vec<&'static str>,
    /// Number of oracle evaluations in this case (>= 1).
    pub evals: u64,
    /// Digests of the distinct non-trivial units of this case.
    pub nontrivial: Vec<u64>,
    pub fails: Vec<Failure>,
    /// Rendered case (for evidence samples and replay files).
    pub sample: String,
    /// Number of generation-time exclusions because of open known findings.
    pub excluded_known: u64,
    /// For enumerated cases: a choice vector that reproduces this case through `run`.
    pub replay: Vec<u32>,
}

impl CaseResult {
    pub fn new(sample: String) -> CaseResult {
        CaseResult { evals: 1, sample, ..Default::default() }
    }
    pub fn fail(&mut self, class: &str, msg: String) {
        self.fails.push(Failure { class: class.to_owned(), msg });
    }
    pub fn label(&mut self, l: &'static str) {
        if !self.labels.contains(&l) {
            self.labels.push(l);
        }
    }
    pub fn nontrivial_self(&mut self) {
        let d = fnv(self.sample.as_bytes());
        self.nontrivial.push(d);
    }
}

pub struct Ctx {
    pub tier: Tier,
    pub seed: u64,
    pub open: HashSet<String>,
    pub strict: bool,
    pub worker: usize,
    pub workers: usize,
    pub oracle: Option<crate::oracle::Oracle>,
}

impl Ctx {
    pub fn is_open(&self, sig: &str) -> bool {
        !self.strict && self.open.contains(sig)
    }
    pub fn oracle(&mut self) -> &mut crate::oracle::Oracle {
        if self.oracle.is_none() {
            self.oracle = Some(crate::oracle::Oracle::start());
        }
        self.oracle.as_mut().unwrap()
    }
}

pub trait Prop: Sync {
    fn id(&self) -> &'static str;
    /// Random cases for the tier (total over all workers).
    fn cases(&self, tier: Tier) -> u64;
    /// (min, max) length of the choice vector.
    fn choice_len(&self, _tier: Tier) -> (usize, usize) {
        (0, 400)
    }
    fn rule(&self) -> String;
    fn assumptions(&self) -> Vec<String> {
        Vec::new()
    }
    /// (label, minimum fraction of random cases carrying it)
    fn floors(&self) -> Vec<(&'static str, f64)> {
        Vec::new()
    }
    /// Generate and check one case.
    fn run(&self, ctx: &mut Ctx, ch: &mut Choices) -> CaseResult;
    /// Enumerated part: call `sink` for each case of shard `ctx.worker` of `ctx.workers`.
    fn exhaustive(&self, _ctx: &mut Ctx, _sink: &mut dyn FnMut(CaseResult)) {}
    fn has_exhaustive(&self) -> bool {
        false
    }
    /// Render the case for a choice vector without checking it (used for crashing cases).
    fn render(&self, _ctx: &mut Ctx, _ch: &mut Choices) -> String {
        "<render not implemented>".into()
    }
    /// Probe for one open known finding, run in its own process (it may crash, which counts as
    /// "still fails"): returns (still_fails, what fails).
    fn known_probe(&self, _ctx: &mut Ctx, _sig: &str) -> Option<(bool, String)> {
        None
    }
    /// Per-worker wall-clock watchdog.
    fn timeout(&self, tier: Tier) -> Duration {
        match tier {
            Tier::Quick => Duration::from_secs(900),
            Tier::Thorough => Duration::from_secs(4 * 3600),
        }
    }
    fn workers(&self) -> usize {
        16
    }
    /// Bound on proptest shrink iterations (lower it where one case costs process spawns).
    fn shrink_iters(&self) -> u32 {
        4000
    }
    /// Hook for properties that run additional whole-process experiments in the supervisor
    /// (e.g. multi-process determinism). Returns extra results to merge.
    fn supervisor_extra(&self, _ctx: &mut Ctx) -> Vec<CaseResult> {
        Vec::new()
    }
}

// ------------------------------------------------------------------------------------------
// Known findings

pub struct Known {
    pub open: Vec<(String, String, String)>, // (property, sig, description)
}

pub fn load_known() -> Known {
    let mut open = Vec::new();
    let path = format!("{VERIF_DIR}/known_findings.txt");
    if let Ok(s) = std::fs::read_to_string(path) {
        for line in s.lines() {
            let line = line.trim();
            if let Some(rest) = line.strip_prefix("open:") {
                let mut prop = String::new();
                let mut sig = String::new();
                let mut desc = Vec::new();
                for w in rest.split_whitespace() {
                    if let Some(p) = w.strip_prefix("property=") {
                        if prop.is_empty() {
                            prop = p.to_owned();
                            continue;
                        }
                    }
                    if let Some(p) = w.strip_prefix("sig=") {
                        if sig.is_empty() {
                            sig = p.to_owned();
                            continue;
                        }
                    }
                    desc.push(w);
                }
                if !prop.is_empty() && !sig.is_empty() {
                    open.push((prop, sig, desc.join(" ")));
                }
            }
        }
    }
    Known { open }
}

impl Known {
    pub fn open_for(&self, id: &str) -> HashSet<String> {
        self.open.iter().filter(|x| x.0 == id).map(|x| x.1.clone()).collect()
    }
    pub fn desc(&self, id: &str, sig: &str) -> String {
        self.open
            .iter()
            .find(|x| x.0 == id && x.1 == sig)
            .map(|x| x.2.clone())
            .unwrap_or_default()
    }
}

// ------------------------------------------------------------------------------------------
// Worker

#[derive(Default)]
struct Agg {
    evals: u64,
    cases: u64,
    labels: BTreeMap<String, u64>,
    rlabels: BTreeMap<String, u64>,
    nontrivial: HashSet<u64>,
    samples: Vec<String>,
    known: BTreeMap<String, (u64, String)>,
    excluded_known: u64,
    exhaustive_cases: u64,
}

impl Agg {
    fn add(&mut self, r: &CaseResult, open: &HashSet<String>, random: bool) -> Option<Failure> {
        let strict = false;
        self.cases += 1;
        if random {
            for l in &r.labels {
                *self.rlabels.entry((*l).to_owned()).or_insert(0) += 1;
            }
        }
        self.evals += r.evals.max(1);
        self.excluded_known += r.excluded_known;
        for l in &r.labels {
            *self.labels.entry((*l).to_owned()).or_insert(0) += 1;
        }
        let before = self.nontrivial.len();
        for d in &r.nontrivial {
            self.nontrivial.insert(*d);
        }
        if self.nontrivial.len() > before && self.samples.len() < 6 && !r.sample.is_empty() {
            self.samples.push(truncate(&r.sample, 1500));
        }
        let mut viol = None;
        for f in &r.fails {
            if !strict && open.contains(&f.class) {
                let e = self.known.entry(f.class.clone()).or_insert((0, f.msg.clone()));
                e.0 += 1;
            } else if viol.is_none() {
                viol = Some(f.clone());
            }
        }
        viol
    }
    fn to_json(&self) -> J {
        json!({
            "evals": self.evals, "cases": self.cases, "labels": self.labels, "rlabels": self.rlabels,
            "nontrivial": self.nontrivial.iter().collect::<Vec<_>>(),
            "samples": self.samples,
            "known": self.known.iter().map(|(k, v)| json!([k, v.0, v.1])).collect::<Vec<_>>(),
            "excluded_known": self.excluded_known,
            "exhaustive_cases": self.exhaustive_cases,
        })
    }
}

pub fn truncate(s: &str, n: usize) -> String {
    if s.len() <= n {
        s.to_owned()
    } else {
        let mut e = n;
        while !s.is_char_boundary(e) {
            e -= 1;
        }
        format!("{}…[{} bytes]", &s[..e], s.len())
    }
}

fn choices_to_string(v: &[u32]) -> String {
    let mut s = String::with_capacity(v.len() * 9);
    for (i, x) in v.iter().enumerate() {
        if i > 0 {
            s.push(',');
        }
        s.push_str(&format!("{x:x}"));
    }
    s
}

pub fn choices_from_string(s: &str) -> Vec<u32> {
    s.trim()
        .split(',')
        .filter(|x| !x.is_empty())
        .map(|x| u32::from_str_radix(x, 16).unwrap_or(0))
        .collect()
}

struct CurFile {
    f: Option<std::fs::File>,
}

static CUR_NOTE: std::sync::Mutex<Option<std::fs::File>> = std::sync::Mutex::new(None);

/// For enumerated parts whose cases may kill the process: records the replay vector of the case about to run, so that
/// the supervisor can attribute a dead worker to it (same file the random part uses).
pub fn note_current(v: &[u32]) {
    if let Ok(mut g) = CUR_NOTE.lock() {
        if let Some(f) = g.as_mut() {
            let s = format!("{}\n", choices_to_string(v));
            let _ = f.seek(SeekFrom::Start(0));
            let _ = f.write_all(format!("{:012}\n", s.len()).as_bytes());
            let _ = f.write_all(s.as_bytes());
        }
    }
}

impl CurFile {
    fn write(&mut self, v: &[u32]) {
        if let Some(f) = self.f.as_mut() {
            let s = format!("{}\n", choices_to_string(v));
            let _ = f.seek(SeekFrom::Start(0));
            let _ = f.write_all(format!("{:012}\n", s.len()).as_bytes());
            let _ = f.write_all(s.as_bytes());
        }
    }
}

fn read_cur(path: &Path) -> Option<Vec<u32>> {
    let mut s = String::new();
    std::fs::File::open(path).ok()?.read_to_string(&mut s).ok()?;
    let (len, rest) = s.split_once('\n')?;
    let len: usize = len.trim().parse().ok()?;
    let body = rest.get(..len)?;
    Some(choices_from_string(body))
}

pub fn run_case_caught(prop: &dyn Prop, ctx: &mut Ctx, v: &[u32]) -> CaseResult {
    let r = std::panic::catch_unwind(std::panic::AssertUnwindSafe(|| {
        let mut ch = Choices::new(v);
        prop.run(ctx, &mut ch)
    }));
    match r {
        Ok(r) => r,
        Err(e) => {
            let msg = panic_msg(&e);
            let mut r = CaseResult::new(format!("<harness-level panic; choices={}>", choices_to_string(v)));
            r.fail("panic", format!("panic escaped the case: {msg}"));
            r
        }
    }
}

pub fn panic_msg(e: &Box<dyn std::any::Any + Send>) -> String {
    let base = if let Some(s) = e.downcast_ref::<&str>() {
        (*s).to_owned()
    } else if let Some(s) = e.downcast_ref::<String>() {
        s.clone()
    } else {
        "<non-string panic>".to_owned()
    };
    let loc = LAST_PANIC.with(|l| l.borrow().clone());
    if loc.is_empty() { base } else { format!("{base} @ {loc}") }
}

thread_local! {
    pub static LAST_PANIC: std::cell::RefCell<String> = const { std::cell::RefCell::new(String::new()) };
}

/// Caps the address space of a worker so that a runaway allocation fails in the worker instead of
/// exhausting the machine.
pub fn limit_memory() {
    unsafe {
        let lim = libc::rlimit { rlim_cur: 10 << 30, rlim_max: 10 << 30 };
        libc::setrlimit(libc::RLIMIT_AS, &lim);
    }
}

pub fn install_quiet_panic_hook() {
    std::panic::set_hook(Box::new(|info| {
        let loc = info.location().map(|l| format!("{}:{}", l.file(), l.line())).unwrap_or_default();
        LAST_PANIC.with(|l| *l.borrow_mut() = loc);
    }));
}

pub fn make_ctx(prop: &dyn Prop, tier: Tier, seed: u64, worker: usize, workers: usize, strict: bool) -> Ctx {
    let known = load_known();
    Ctx { tier, seed, open: known.open_for(prop.id()), strict, worker, workers, oracle: None }
}

/// Runs this worker's share of the exhaustive part and of the random cases. Prints one
/// `SUMMARY <json>` line and optionally one `FAIL <json>` line.
pub fn worker_main(prop: &'static dyn Prop, tier: Tier, seed: u64, worker: usize, workers: usize) -> i32 {
    install_quiet_panic_hook();
    limit_memory();
    let h = std::thread::Builder::new()
        .stack_size(WORKER_STACK)
        .spawn(move || worker_body(prop, tier, seed, worker, workers))
        .unwrap();
    h.join().unwrap_or(3)
}

fn worker_body(prop: &dyn Prop, tier: Tier, seed: u64, worker: usize, workers: usize) -> i32 {
    let mut ctx = make_ctx(prop, tier, seed, worker, workers, false);
    let open = ctx.open.clone();
    let dir = PathBuf::from(format!("{WORK_DIR}/{}", prop.id()));
    let _ = std::fs::create_dir_all(&dir);
    let mut cur = CurFile {
        f: std::fs::OpenOptions::new()
            .create(true)
            .write(true)
            .truncate(true)
            .open(dir.join(format!("w{worker}.cur")))
            .ok(),
    };
    if let Some(f) = cur.f.as_ref().and_then(|f| f.try_clone().ok()) {
        if let Ok(mut g) = CUR_NOTE.lock() {
            *g = Some(f);
        }
    }
    let mut agg = Agg::default();
    let mut fail: Option<J> = None;

    // Exhaustive shard first.
    if prop.has_exhaustive() {
        let mut first: Option<(Failure, String, Vec<u32>)> = None;
        {
            let agg_ref = &mut agg;
            let first_ref = &mut first;
            let mut sink = |r: CaseResult| {
                agg_ref.exhaustive_cases += 1;
                if let Some(f) = agg_ref.add(&r, &open, false) {
                    if first_ref.is_none() {
                        *first_ref = Some((f, r.sample.clone(), r.replay.clone()));
                    }
                }
            };
            cur.write(&[0xEEEE_EEEE]);
            let r = std::panic::catch_unwind(std::panic::AssertUnwindSafe(|| prop.exhaustive(&mut ctx, &mut sink)));
            if let Err(e) = r {
                let msg = panic_msg(&e);
                if first.is_none() {
                    first = Some((
                        Failure { class: "panic".into(), msg: format!("panic in exhaustive part: {msg}") },
                        "<exhaustive part>".into(),
                        Vec::new(),
                    ));
                }
            }
        }
        if let Some((f, sample, replay)) = first {
            fail = Some(json!({"class": f.class, "msg": f.msg, "sample": sample, "choices": choices_to_string(&replay), "exhaustive": true}));
        }
    }

    // Random cases via proptest.
    let total = prop.cases(tier);
    let share = total / workers as u64 + if (worker as u64) < total % workers as u64 { 1 } else { 0 };
    if fail.is_none() && share > 0 {
        let (lo, hi) = prop.choice_len(tier);
        let strat = proptest::collection::vec(choice_strategy(), lo..hi.max(lo + 1));
        let wseed = seed ^ fnv(prop.id().as_bytes()) ^ ((worker as u64 + 1).wrapping_mul(0x9E37_79B9_7F4A_7C15));
        let cfg = Config {
            cases: share as u32,
            rng_seed: RngSeed::Fixed(wseed),
            failure_persistence: None,
            max_shrink_iters: prop.shrink_iters(),
            max_shrink_time: 0,
            verbose: 0,
            ..Config::default()
        };
        let mut runner = TestRunner::new(cfg);
        let first_fail: std::cell::RefCell<Option<Failure>> = std::cell::RefCell::new(None);
        let res = {
            let state = std::cell::RefCell::new((&mut agg, &mut ctx, &mut cur));
            let open = &open;
            let first_fail = &first_fail;
            runner.run(&strat, move |v: Vec<u32>| {
                let mut st = state.borrow_mut();
                let (agg, ctx, cur) = &mut *st;
                cur.write(&v);
                let r = run_case_caught(prop, ctx, &v);
                let mut ff = first_fail.borrow_mut();
                match &*ff {
                    None => {
                        if let Some(f) = agg.add(&r, open, true) {
                            *ff = Some(f.clone());
                            return Err(TestCaseError::fail(f.class));
                        }
                        Ok(())
                    }
                    Some(ff) => {
                        // Shrinking: only the same failure class keeps the candidate.
                        if r.fails.iter().any(|f| f.class == ff.class) {
                            Err(TestCaseError::fail(ff.class.clone()))
                        } else {
                            Ok(())
                        }
                    }
                }
            })
        };
        let first_fail = first_fail.into_inner();
        match res {
            Ok(()) => {}
            Err(TestError::Fail(_, v)) => {
                let class = first_fail.as_ref().map(|f| f.class.clone()).unwrap_or_default();
                cur.write(&v);
                let r = run_case_caught(prop, &mut ctx, &v);
                let f = r
                    .fails
                    .iter()
                    .find(|f| f.class == class)
                    .cloned()
                    .or(first_fail.clone())
                    .unwrap_or(Failure { class: class.clone(), msg: "failure vanished on re-run (flaky oracle?)".into() });
                fail = Some(json!({"class": f.class, "msg": f.msg, "sample": r.sample, "choices": choices_to_string(&v)}));
            }
            Err(TestError::Abort(reason)) => {
                println!("ABORT {}", json!({"reason": reason.to_string()}));
            }
        }
    }
    println!("SUMMARY {}", agg.to_json());
    if let Some(f) = fail {
        println!("FAIL {f}");
    }
    let _ = std::io::stdout().flush();
    0
}

/// u32 choices with a bias toward small values and the extremes, so that generators' first
/// alternatives (leaves) and last alternatives both appear often.
fn choice_strategy() -> impl Strategy<Value = u32> {
    proptest::prop_oneof![
        6 => proptest::num::u32::ANY,
        1 => 0u32..0x0400_0000u32,
        1 => proptest::strategy::Just(u32::MAX),
    ]
}

// ------------------------------------------------------------------------------------------
// Single-case runner (used for crash confirmation / shrinking / replay)

/// `svf one <ID> <choices-file>`: prints `RESULT <json>`; exit code 0 unless the process dies.
pub fn one_main(prop: &'static dyn Prop, tier: Tier, seed: u64, path: &str, strict: bool) -> i32 {
    install_quiet_panic_hook();
    limit_memory();
    let s = std::fs::read_to_string(path).unwrap_or_default();
    let v = choices_from_string(&s);
    let h = std::thread::Builder::new()
        .stack_size(WORKER_STACK)
        .spawn(move || {
            let mut ctx = make_ctx(prop, tier, seed, 0, 1, strict);
            let open = ctx.open.clone();
            let r = run_case_caught(prop, &mut ctx, &v);
            let viol: Vec<_> = r.fails.iter().filter(|f| strict || !open.contains(&f.class)).collect();
            println!(
                "RESULT {}",
                json!({"violations": viol.iter().map(|f| json!({"class": f.class, "msg": f.msg})).collect::<Vec<_>>(),
                       "known": r.fails.iter().filter(|f| !strict && open.contains(&f.class)).map(|f| f.class.clone()).collect::<Vec<_>>(),
                       "sample": r.sample})
            );
        })
        .unwrap();
    let _ = h.join();
    0
}

pub enum OneOutcome {
    Result(J),
    Crash(String),
    Timeout,
}

pub fn run_one_child(id: &str, tier: Tier, seed: u64, v: &[u32], strict: bool, timeout: Duration) -> OneOutcome {
    let dir = format!("{WORK_DIR}/{id}");
    let _ = std::fs::create_dir_all(&dir);
    let path = format!("{dir}/one-{}.choices", std::process::id());
    std::fs::write(&path, choices_to_string(v)).unwrap();
    let exe = std::env::current_exe().unwrap();
    let mut cmd = Command::new(exe);
    cmd.arg("one").arg(id).arg(&path).arg("--tier").arg(tier.name()).arg("--seed").arg(seed.to_string());
    if strict {
        cmd.arg("--strict");
    }
    cmd.stdout(Stdio::piped()).stderr(Stdio::piped());
    let mut child = cmd.spawn().unwrap();
    let start = Instant::now();
    let mut out = child.stdout.take().unwrap();
    let mut err = child.stderr.take().unwrap();
    let t_out = std::thread::spawn(move || {
        let mut s = String::new();
        let _ = out.read_to_string(&mut s);
        s
    });
    let t_err = std::thread::spawn(move || {
        let mut s = Vec::new();
        let _ = err.read_to_end(&mut s);
        String::from_utf8_lossy(&s).into_owned()
    });
    loop {
        match child.try_wait() {
            Ok(Some(status)) => {
                let out = t_out.join().unwrap_or_default();
                let err = t_err.join().unwrap_or_default();
                for line in out.lines() {
                    if let Some(j) = line.strip_prefix("RESULT ") {
                        if let Ok(j) = serde_json::from_str::<J>(j) {
                            return OneOutcome::Result(j);
                        }
                    }
                }
                let tail: String = err.lines().rev().take(6).collect::<Vec<_>>().into_iter().rev().collect::<Vec<_>>().join(" | ");
                return OneOutcome::Crash(format!("child {status}; stderr tail: {}", truncate(&tail, 600)));
            }
            Ok(None) => {
                if start.elapsed() > timeout {
                    let _ = child.kill();
                    let _ = child.wait();
                    return OneOutcome::Timeout;
                }
                std::thread::sleep(Duration::from_millis(5));
            }
            Err(_) => return OneOutcome::Crash("wait failed".into()),
        }
    }
}

/// Shrink a crashing choice vector by child-process round trips (bounded).
fn shrink_crash(id: &str, tier: Tier, seed: u64, mut v: Vec<u32>) -> Vec<u32> {
    let mut budget = 160;
    let deadline = Instant::now() + Duration::from_secs(240);
    let crashes = |c: &[u32], budget: &mut i32| -> bool {
        *budget -= 1;
        if Instant::now() > deadline {
            // slow crashing cases: stop shrinking, keep what we have
            *budget = 0;
            return false;
        }
        matches!(run_one_child(id, tier, seed, c, false, Duration::from_secs(60)), OneOutcome::Crash(_))
    };
    // truncate
    let mut n = v.len() / 2;
    while n >= 1 && budget > 0 {
        if v.len() > n {
            let c = v[..v.len() - n].to_vec();
            if crashes(&c, &mut budget) {
                v = c;
                continue;
            }
        }
        n /= 2;
    }
    // delete blocks
    let mut block = (v.len() / 4).max(1);
    while block >= 1 && budget > 0 {
        let mut i = 0;
        while i + block <= v.len() && budget > 0 {
            let mut c = v.clone();
            c.drain(i..i + block);
            if crashes(&c, &mut budget) {
                v = c;
            } else {
                i += block;
            }
        }
        if block == 1 {
            break;
        }
        block /= 2;
    }
    // zero elements
    let mut i = 0;
    while i < v.len() && budget > 0 {
        if v[i] != 0 {
            let mut c = v.clone();
            c[i] = 0;
            if crashes(&c, &mut budget) {
                v = c;
            }
        }
        i += 1;
    }
    v
}

// ------------------------------------------------------------------------------------------
// Supervisor

struct WorkerOut {
    status_ok: bool,
    status: String,
    stdout: String,
    stderr_tail: String,
    timed_out: bool,
}

fn spawn_workers(id: &str, tier: Tier, seed: u64, n: usize, timeout: Duration) -> Vec<WorkerOut> {
    let exe = std::env::current_exe().unwrap();
    let mut handles = Vec::new();
    for w in 0..n {
        let mut cmd = Command::new(&exe);
        cmd.arg("worker")
            .arg(id)
            .arg("--tier")
            .arg(tier.name())
            .arg("--seed")
            .arg(seed.to_string())
            .arg("--index")
            .arg(w.to_string())
            .arg("--of")
            .arg(n.to_string())
            .stdout(Stdio::piped())
            .stderr(Stdio::piped());
        let mut child = cmd.spawn().expect("spawn worker");
        let mut out = child.stdout.take().unwrap();
        let mut err = child.stderr.take().unwrap();
        let t_out = std::thread::spawn(move || {
            let mut s = String::new();
            let _ = out.read_to_string(&mut s);
            s
        });
        let t_err = std::thread::spawn(move || {
            let mut s = Vec::new();
            let _ = err.read_to_end(&mut s);
            let s = String::from_utf8_lossy(&s).into_owned();
            let lines: Vec<&str> = s.lines().collect();
            lines[lines.len().saturating_sub(8)..].join("\n")
        });
        handles.push((child, t_out, t_err));
    }
    let start = Instant::now();
    let mut outs = Vec::new();
    for (mut child, t_out, t_err) in handles {
        let mut timed_out = false;
        let status = loop {
            match child.try_wait() {
                Ok(Some(s)) => break Some(s),
                Ok(None) => {
                    if start.elapsed() > timeout {
                        let _ = child.kill();
                        let _ = child.wait();
                        timed_out = true;
                        break None;
                    }
                    std::thread::sleep(Duration::from_millis(20));
                }
                Err(_) => break None,
            }
        };
        outs.push(WorkerOut {
            status_ok: status.map(|s| s.success()).unwrap_or(false),
            status: status.map(|s| s.to_string()).unwrap_or("killed".into()),
            stdout: t_out.join().unwrap_or_default(),
            stderr_tail: t_err.join().unwrap_or_default(),
            timed_out,
        });
    }
    outs
}

fn write_replay(id: &str, seed: u64, tier: Tier, choices: &str, sample: &str, class: &str, msg: &str, crash: bool) -> String {
    let dir = format!("{VERIF_DIR}/replay/{id}");
    let _ = std::fs::create_dir_all(&dir);
    let digest = fnv(format!("{choices}|{class}|{sample}").as_bytes());
    let path = format!("{dir}/{digest:016x}.json");
    let j = json!({
        "property": id, "seed": seed, "tier": tier.name(), "choices": choices, "rendered_case": sample,
        "class": class, "observed": msg, "crash": crash,
        "replay": format!("/verif/check {id} --replay {path}"),
    });
    let _ = std::fs::write(&path, serde_json::to_string_pretty(&j).unwrap());
    path
}

pub fn check_main(prop: &'static dyn Prop, tier: Tier, seed: u64) -> i32 {
    let id = prop.id();
    let start = Instant::now();
    let known = load_known();
    let open = known.open_for(id);
    let _ = std::fs::create_dir_all(format!("{WORK_DIR}/{id}"));
    let _ = std::fs::create_dir_all(format!("{VERIF_DIR}/evidence"));

    let mut violations: Vec<String> = Vec::new(); // replay paths
    let mut inconclusive: Vec<String> = Vec::new();
    let mut known_lines: BTreeMap<String, (u64, String)> = BTreeMap::new();

    // 1. Regression corpus (seconds): replay every stored case strictly.
    let mut regress_n = 0u64;
    let regdir = format!("{VERIF_DIR}/regress/{id}");
    if let Ok(rd) = std::fs::read_dir(&regdir) {
        let mut files: Vec<_> = rd.filter_map(|e| e.ok()).map(|e| e.path()).filter(|p| p.extension().map(|e| e == "json").unwrap_or(false)).collect();
        files.sort();
        for f in files {
            regress_n += 1;
            let Ok(s) = std::fs::read_to_string(&f) else { continue };
            let Ok(j) = serde_json::from_str::<J>(&s) else { continue };
            let v = choices_from_string(j["choices"].as_str().unwrap_or(""));
            let rtier = Tier::parse(j["tier"].as_str().unwrap_or("quick"));
            let rseed = j["seed"].as_u64().unwrap_or(seed);
            match run_one_child(id, rtier, rseed, &v, false, Duration::from_secs(120)) {
                OneOutcome::Result(r) => {
                    if let Some(viol) = r["violations"].as_array().and_then(|a| a.first()) {
                        let p = write_replay(id, rseed, rtier, j["choices"].as_str().unwrap_or(""), r["sample"].as_str().unwrap_or(""),
                            viol["class"].as_str().unwrap_or(""), &format!("regression {}: {}", f.display(), viol["msg"].as_str().unwrap_or("")), false);
                        violations.push(p);
                    }
                    for k in r["known"].as_array().cloned().unwrap_or_default() {
                        let k = k.as_str().unwrap_or("").to_owned();
                        known_lines.entry(k.clone()).or_insert((0, known.desc(id, &k))).0 += 1;
                    }
                }
                OneOutcome::Crash(m) => {
                    let p = write_replay(id, rseed, rtier, j["choices"].as_str().unwrap_or(""), j["rendered_case"].as_str().unwrap_or(""), "crash",
                        &format!("regression {} crashes: {m}", f.display()), true);
                    violations.push(p);
                }
                OneOutcome::Timeout => inconclusive.push(format!("regression {} timed out", f.display())),
            }
        }
    }

    // 2. Known-finding probes: one child process per open signature (a probe may crash).
    for sig in &open {
        let exe = std::env::current_exe().unwrap();
        let out = Command::new(exe).arg("probe").arg(id).arg(sig).arg("--tier").arg(tier.name()).arg("--seed").arg(seed.to_string()).output();
        if let Ok(out) = out {
            let stdout = String::from_utf8_lossy(&out.stdout).into_owned();
            let mut seen = false;
            for line in stdout.lines() {
                if let Some(j) = line.strip_prefix("PROBE ") {
                    if let Ok(j) = serde_json::from_str::<J>(j) {
                        seen = true;
                        if j["fails"].as_bool().unwrap_or(false) {
                            known_lines.entry(sig.clone()).or_insert((0, j["desc"].as_str().unwrap_or("").to_owned())).0 += 1;
                        }
                    }
                }
            }
            if !seen && !out.status.success() && stdout.contains("PROBE-START") {
                known_lines.entry(sig.clone()).or_insert((0, format!("{} [probe process died: {}]", known.desc(id, sig), out.status))).0 += 1;
            }
        }
    }

    // 3. Workers.
    let n = prop.workers().min(std::thread::available_parallelism().map(|x| x.get()).unwrap_or(16)).max(1);
    let outs = spawn_workers(id, tier, seed, n, prop.timeout(tier));
    let mut evals = 0u64;
    let mut cases = 0u64;
    let mut exhaustive_cases = 0u64;
    let mut excluded_known = 0u64;
    let mut labels: BTreeMap<String, u64> = BTreeMap::new();
    let mut rlabels: BTreeMap<String, u64> = BTreeMap::new();
    let mut nontrivial: HashSet<u64> = HashSet::new();
    let mut samples: Vec<String> = Vec::new();
    for (w, o) in outs.iter().enumerate() {
        let mut got_summary = false;
        for line in o.stdout.lines() {
            if let Some(j) = line.strip_prefix("SUMMARY ") {
                if let Ok(j) = serde_json::from_str::<J>(j) {
                    got_summary = true;
                    evals += j["evals"].as_u64().unwrap_or(0);
                    cases += j["cases"].as_u64().unwrap_or(0);
                    exhaustive_cases += j["exhaustive_cases"].as_u64().unwrap_or(0);
                    excluded_known += j["excluded_known"].as_u64().unwrap_or(0);
                    if let Some(m) = j["labels"].as_object() {
                        for (k, v) in m {
                            *labels.entry(k.clone()).or_insert(0) += v.as_u64().unwrap_or(0);
                        }
                    }
                    if let Some(m) = j["rlabels"].as_object() {
                        for (k, v) in m {
                            *rlabels.entry(k.clone()).or_insert(0) += v.as_u64().unwrap_or(0);
                        }
                    }
                    for d in j["nontrivial"].as_array().cloned().unwrap_or_default() {
                        if let Some(d) = d.as_u64() {
                            nontrivial.insert(d);
                        }
                    }
                    for s in j["samples"].as_array().cloned().unwrap_or_default() {
                        if samples.len() < 8 {
                            samples.push(s.as_str().unwrap_or("").to_owned());
                        }
                    }
                    for k in j["known"].as_array().cloned().unwrap_or_default() {
                        let sig = k[0].as_str().unwrap_or("").to_owned();
                        let e = known_lines.entry(sig.clone()).or_insert((0, String::new()));
                        e.0 += k[1].as_u64().unwrap_or(0);
                        if e.1.is_empty() {
                            e.1 = k[2].as_str().unwrap_or("").to_owned();
                        }
                    }
                }
            } else if let Some(j) = line.strip_prefix("FAIL ") {
                if let Ok(j) = serde_json::from_str::<J>(j) {
                    let p = write_replay(id, seed, tier, j["choices"].as_str().unwrap_or(""), j["sample"].as_str().unwrap_or(""),
                        j["class"].as_str().unwrap_or(""), j["msg"].as_str().unwrap_or(""), false);
                    eprintln!("[{id}] worker {w} failure class={} : {}", j["class"].as_str().unwrap_or(""), truncate(j["msg"].as_str().unwrap_or(""), 2000));
                    eprintln!("[{id}] case:\n{}", truncate(j["sample"].as_str().unwrap_or(""), 3000));
                    violations.push(p);
                }
            } else if let Some(j) = line.strip_prefix("ABORT ") {
                inconclusive.push(format!("worker {w} proptest abort: {j}"));
            } else if let Some(j) = line.strip_prefix("INCONCLUSIVE ") {
                inconclusive.push(format!("worker {w}: {j}"));
            }
        }
        if o.timed_out {
            inconclusive.push(format!("worker {w} hit the watchdog"));
            continue;
        }
        if o.stdout.lines().any(|l| l.starts_with("INCONCLUSIVE ")) {
            continue;
        }
        if !got_summary || !o.status_ok {
            // The worker died: attribute to the in-flight case.
            let cur = read_cur(Path::new(&format!("{WORK_DIR}/{id}/w{w}.cur")));
            eprintln!("[{id}] worker {w} died ({}); stderr tail:\n{}", o.status, o.stderr_tail);
            match cur {
                Some(v) if v != vec![0xEEEE_EEEE] => {
                    match run_one_child(id, tier, seed, &v, false, Duration::from_secs(120)) {
                        OneOutcome::Crash(m) => {
                            let small = shrink_crash(id, tier, seed, v);
                            let m2 = match run_one_child(id, tier, seed, &small, false, Duration::from_secs(120)) {
                                OneOutcome::Crash(m2) => m2,
                                _ => m,
                            };
                            let rendered = {
                                let mut c = make_ctx(prop, tier, seed, 0, 1, false);
                                prop.render(&mut c, &mut Choices::new(&small))
                            };
                            eprintln!("[{id}] crashing case: {}", truncate(&rendered, 600));
                            let p = write_replay(id, seed, tier, &choices_to_string(&small), &rendered,
                                "crash", &format!("process died: {m2}"), true);
                            violations.push(p);
                        }
                        OneOutcome::Result(r) => {
                            if let Some(viol) = r["violations"].as_array().and_then(|a| a.first()) {
                                let p = write_replay(id, seed, tier, &choices_to_string(&v), r["sample"].as_str().unwrap_or(""),
                                    viol["class"].as_str().unwrap_or(""), viol["msg"].as_str().unwrap_or(""), false);
                                violations.push(p);
                            } else {
                                inconclusive.push(format!("worker {w} died ({}), in-flight case does not reproduce alone", o.status));
                            }
                        }
                        OneOutcome::Timeout => inconclusive.push(format!("worker {w} died; in-flight case times out alone")),
                    }
                }
                _ => {
                    if prop.has_exhaustive() {
                        let p = write_replay(id, seed, tier, "", "<exhaustive part>", "crash",
                            &format!("process died in the exhaustive part: {} / {}", o.status, o.stderr_tail), true);
                        violations.push(p);
                    } else {
                        inconclusive.push(format!("worker {w} died ({}) before its first case", o.status));
                    }
                }
            }
        }
    }

    // 4. Floors (generator health).
    let random_cases = cases.saturating_sub(exhaustive_cases);
    let mut starved = Vec::new();
    if random_cases >= 200 && violations.is_empty() {
        for (l, min) in prop.floors() {
            let c = rlabels.get(l).copied().unwrap_or(0);
            let frac = c as f64 / random_cases as f64;
            if frac < min {
                starved.push(format!("{l}: {frac:.3} < {min:.3}"));
            }
        }
    }

    // 5. Evidence.
    let wall = start.elapsed().as_secs_f64();
    let ev = json!({
        "property_id": id,
        "tier": tier.name(),
        "seed": seed,
        "level": "exploration",
        "coverage": {
            "evaluations": evals,
            "cases": cases,
            "distinct_nontrivial": nontrivial.len(),
            "rule": prop.rule(),
            "samples": samples,
            "labels": labels,
            "labels_random_part": rlabels,
            "exhaustive": prop.has_exhaustive(),
            "exhaustive_cases": exhaustive_cases,
            "random_cases": random_cases,
            "regression_cases_replayed": regress_n,
            "excluded_known": excluded_known,
            "known_findings_hit": known_lines.iter().map(|(k, v)| json!({"sig": k, "count": v.0})).collect::<Vec<_>>(),
            "workers": n,
            "worker_stack_bytes": WORKER_STACK,
            "inconclusive": inconclusive,
            "starved": starved,
        },
        "assumptions": prop.assumptions(),
        "wall_s": wall,
        "violations": violations.len(),
    });
    let _ = std::fs::write(format!("{VERIF_DIR}/evidence/{id}.json"), serde_json::to_string_pretty(&ev).unwrap());

    for (sig, (count, desc)) in &known_lines {
        let d = if desc.is_empty() { known.desc(id, sig) } else { desc.clone() };
        println!("KNOWN-FINDING: property={id} sig={sig} hits={count} {}", truncate(&d.replace('\n', " "), 300));
    }
    println!(
        "[{id}] tier={} seed={seed} evaluations={evals} cases={cases} distinct_nontrivial={} violations={} wall={wall:.1}s",
        tier.name(),
        nontrivial.len(),
        violations.len()
    );
    if !violations.is_empty() {
        for p in &violations {
            println!("VIOLATION property={id} replay={p}");
        }
        return 1;
    }
    if !inconclusive.is_empty() || !starved.is_empty() {
        for s in &inconclusive {
            println!("INCONCLUSIVE property={id} {s}");
        }
        for s in &starved {
            println!("GENERATOR-STARVED property={id} {s}");
        }
        return 2;
    }
    0
}

pub fn render_main(prop: &'static dyn Prop, tier: Tier, seed: u64, path: &str) -> i32 {
    let s = std::fs::read_to_string(path).unwrap_or_default();
    let s = if let Ok(j) = serde_json::from_str::<J>(&s) { j["choices"].as_str().unwrap_or("").to_owned() } else { s };
    let v = choices_from_string(&s);
    let mut ctx = make_ctx(prop, tier, seed, 0, 1, false);
    println!("{}", prop.render(&mut ctx, &mut Choices::new(&v)));
    0
}

pub fn probe_main(prop: &'static dyn Prop, tier: Tier, seed: u64, sig: String) -> i32 {
    install_quiet_panic_hook();
    let h = std::thread::Builder::new()
        .stack_size(WORKER_STACK)
        .spawn(move || {
            let mut ctx = make_ctx(prop, tier, seed, 0, 1, false);
            println!("PROBE-START");
            let _ = std::io::stdout().flush();
            if let Some((fails, desc)) = prop.known_probe(&mut ctx, &sig) {
                println!("PROBE {}", json!({"sig": sig, "fails": fails, "desc": desc}));
            } else {
                println!("PROBE-NONE");
            }
        })
        .unwrap();
    let _ = h.join();
    0
}

pub fn replay_main(prop: &'static dyn Prop, path: &str) -> i32 {
    let id = prop.id();
    let Ok(s) = std::fs::read_to_string(path) else {
        eprintln!("cannot read {path}");
        return 2;
    };
    let Ok(j) = serde_json::from_str::<J>(&s) else {
        eprintln!("bad replay json");
        return 2;
    };
    let v = choices_from_string(j["choices"].as_str().unwrap_or(""));
    let tier = Tier::parse(j["tier"].as_str().unwrap_or("quick"));
    let seed = j["seed"].as_u64().unwrap_or(DEFAULT_SEED);
    match run_one_child(id, tier, seed, &v, false, Duration::from_secs(600)) {
        OneOutcome::Result(r) => {
            println!("{}", r["sample"].as_str().unwrap_or(""));
            let viols = r["violations"].as_array().cloned().unwrap_or_default();
            for k in r["known"].as_array().cloned().unwrap_or_default() {
                println!("KNOWN-FINDING: property={id} sig={}", k.as_str().unwrap_or(""));
            }
            if viols.is_empty() {
                println!("[{id}] replay passes");
                0
            } else {
                for v in viols {
                    println!("observed: class={} {}", v["class"].as_str().unwrap_or(""), v["msg"].as_str().unwrap_or(""));
                }
                println!("VIOLATION property={id} replay={path}");
                1
            }
        }
        OneOutcome::Crash(m) => {
            println!("observed: process died: {m}");
            println!("VIOLATION property={id} replay={path}");
            1
        }
        OneOutcome::Timeout => {
            println!("INCONCLUSIVE property={id} replay timed out");
            2
        }
    }
}
