//! C18 — profilers, statement hooks and the debugger observe without interfering.

use std::sync::mpsc;
use std::time::Duration;

use debugserver_types::Source;
use debugserver_types::SourceBreakpoint;
use debugserver_types::SetBreakpointsArguments;
use debugserver_types::StackTraceArguments;
use starlark::debug::DapAdapter;
use starlark::debug::DapAdapterClient;
use starlark::debug::DapAdapterEvalHook;
use starlark::debug::StepKind;
use starlark::debug::prepare_dap_adapter;
use starlark::debug::resolve_breakpoints;
use starlark::environment::Module;
use starlark::eval::BeforeStmtFunc;
use starlark::eval::BeforeStmtFuncDyn;
use starlark::eval::Evaluator;
use starlark::eval::ProfileMode;

use crate::engine::*;
use crate::sl;

pub struct C18;

const MODES: [ProfileMode; 12] = [
    ProfileMode::HeapSummaryAllocated,
    ProfileMode::HeapSummaryRetained,
    ProfileMode::HeapFlameAllocated,
    ProfileMode::HeapFlameRetained,
    ProfileMode::HeapAllocated,
    ProfileMode::HeapRetained,
    ProfileMode::Statement,
    ProfileMode::Coverage,
    ProfileMode::Bytecode,
    ProfileMode::BytecodePairs,
    ProfileMode::TimeFlame,
    ProfileMode::Typecheck,
];

// ---- program generator with marker statements ---------------------------------------------------

struct Marker {
    line: usize, // 1-based
    key: u32,
    vars: Vec<String>,
    in_def: bool,
    top_level: bool,
}

struct Prog {
    src: String,
    markers: Vec<Marker>,
}

struct PG<'a, 'c> {
    ch: &'a mut Choices<'c>,
    lines: Vec<String>,
    markers: Vec<Marker>,
    next_key: u32,
    next_var: u32,
}

impl<'a, 'c> PG<'a, 'c> {
    fn val(&mut self, vars: &[String]) -> String {
        match self.ch.below(6) {
            0 if !vars.is_empty() => format!("{} + {}", vars[self.ch.idx(vars.len())], self.ch.range(1, 9)),
            1 => format!("{}", self.ch.range(-5, 50)),
            2 => crate::prog::str_lit(self.ch.pick_s(&["a", "bc", "é", ""])),
            3 => (*self.ch.pick(&["True", "False", "None"])).to_owned(),
            4 if !vars.is_empty() => format!("str({}) + \"!\"", vars[self.ch.idx(vars.len())]),
            _ => format!("{}", (1i64 << 33) + self.ch.range(0, 9)),
        }
    }
    fn mark(&mut self, indent: usize, vars: &[String], in_def: bool) {
        self.next_key += 1;
        let n = self.ch.idx(vars.len().min(4) + 1);
        let mut chosen: Vec<String> = Vec::new();
        for _ in 0..n {
            let v = vars[self.ch.idx(vars.len())].clone();
            if !chosen.contains(&v) {
                chosen.push(v);
            }
        }
        let args: Vec<String> = std::iter::once(self.next_key.to_string()).chain(chosen.iter().cloned()).collect();
        self.lines.push(format!("{}mark({})", "    ".repeat(indent), args.join(", ")));
        self.markers.push(Marker { line: self.lines.len(), key: self.next_key, vars: chosen, in_def, top_level: indent == 0 });
    }
    fn block(&mut self, indent: usize, vars: &mut Vec<String>, depth: u32, in_def: bool, funcs: &[(String, usize)]) {
        let pad = "    ".repeat(indent);
        let n = 2 + self.ch.idx(4);
        for _ in 0..n {
            match self.ch.weighted(&[5, 6, if depth < 2 { 3 } else { 0 }, if depth < 2 { 3 } else { 0 }, if funcs.is_empty() { 0 } else { 3 }]) {
                0 => {
                    self.next_var += 1;
                    let name = format!("v{}", self.next_var);
                    let e = self.val(vars);
                    // ints only participate in `+`: keep a parallel int-typed pool by naming
                    self.lines.push(format!("{pad}{name} = {e}"));
                    if e.contains('+') && !e.contains("str(") || e.chars().all(|c| c.is_ascii_digit() || c == '-') {
                        vars.push(name);
                    }
                }
                1 => self.mark(indent, vars, in_def),
                2 => {
                    self.next_var += 1;
                    let i = format!("i{}", self.next_var);
                    self.lines.push(format!("{pad}for {i} in range({}):", self.ch.idx(4)));
                    let before = vars.len();
                    vars.push(i);
                    self.block(indent + 1, vars, depth + 1, in_def, funcs);
                    vars.truncate(before);
                }
                3 => {
                    let c = if vars.is_empty() { "True".to_owned() } else { format!("{} % 2 == 0", vars[self.ch.idx(vars.len())]) };
                    self.lines.push(format!("{pad}if {c}:"));
                    let before = vars.len();
                    self.block(indent + 1, vars, depth + 1, in_def, funcs);
                    vars.truncate(before);
                    if self.ch.bool() {
                        self.lines.push(format!("{pad}else:"));
                        self.block(indent + 1, vars, depth + 1, in_def, funcs);
                        vars.truncate(before);
                    }
                }
                _ => {
                    let (f, arity) = funcs[self.ch.idx(funcs.len())].clone();
                    let args: Vec<String> = (0..arity).map(|_| if vars.is_empty() || self.ch.bool() { format!("{}", self.ch.range(0, 20)) } else { vars[self.ch.idx(vars.len())].clone() }).collect();
                    self.next_var += 1;
                    let name = format!("r{}", self.next_var);
                    self.lines.push(format!("{pad}{name} = {f}({})", args.join(", ")));
                    vars.push(name);
                }
            }
        }
    }
}

fn gen_prog(ch: &mut Choices) -> Prog {
    let mut g = PG { ch, lines: Vec::new(), markers: Vec::new(), next_key: 0, next_var: 0 };
    let nf = 1 + g.ch.idx(3);
    let mut funcs: Vec<(String, usize)> = Vec::new();
    for k in 0..nf {
        let arity = g.ch.idx(3);
        let params: Vec<String> = (0..arity).map(|i| format!("p{k}_{i}")).collect();
        g.lines.push(format!("def f{k}({}):", params.join(", ")));
        let mut vars = params.clone();
        let fs = funcs.clone();
        g.block(1, &mut vars, 0, true, &fs);
        // a nested def capturing a local (debugger `variables` has a TODO for captured locals)
        if g.ch.chance(1, 3) && !vars.is_empty() {
            let cap = vars[g.ch.idx(vars.len())].clone();
            g.lines.push(format!("    def inner{k}():"));
            g.lines.push(format!("        return {cap} + 1"));
            g.next_var += 1;
            let name = format!("v{}", g.next_var);
            g.lines.push(format!("    {name} = inner{k}()"));
            vars.push(name);
            g.mark(1, &vars, true);
        }
        let ret = if vars.is_empty() { "0".to_owned() } else { vars[g.ch.idx(vars.len())].clone() };
        g.lines.push(format!("    return {ret}"));
        funcs.push((format!("f{k}"), arity));
    }
    let mut vars: Vec<String> = Vec::new();
    g.block(0, &mut vars, 0, false, &funcs);
    if g.ch.chance(1, 5) {
        g.lines.push("fail(\"the end\")".to_owned());
    }
    Prog { src: g.lines.join("\n") + "\n", markers: g.markers }
}

// ---- running under a configuration -----------------------------------------------------------------

#[derive(Debug, Clone, PartialEq)]
struct Obs {
    tx: Vec<String>,
    outcome: String,
}

fn finish_obs(r: Result<String, String>) -> Obs {
    Obs { tx: sl::tx_take(), outcome: match r { Ok(v) => format!("ok:{v}"), Err(e) => format!("err:{e}") } }
}

struct NoopHook;
impl<'e> BeforeStmtFuncDyn<'e> for NoopHook {
    fn call<'v>(&mut self, _span: starlark::codemap::FileSpanRef, _continued: bool, _eval: &mut Evaluator<'v, '_, 'e>) -> starlark::Result<()> {
        Ok(())
    }
}

enum Instr {
    None,
    Profile(ProfileMode),
    NoopHook,
}

fn run_plain(src: &str, instr: Instr) -> Result<Obs, String> {
    let ast = sl::parse("dbg.star", src, &sl::dialect_all()).map_err(|e| format!("parse: {e}"))?;
    sl::tx_reset();
    let mut profile_err: Option<String> = None;
    let obs = Module::with_temp_heap(|module| {
        let r = {
            let mut eval = Evaluator::new(&module);
            let _ = eval.set_max_tick_count(2_000_000);
            match &instr {
                Instr::Profile(m) => {
                    if let Err(e) = eval.enable_profile(m) {
                        profile_err = Some(format!("enable_profile({m}) failed: {e}"));
                    }
                }
                Instr::NoopHook => eval.before_stmt_for_dap(BeforeStmtFunc::from_dyn(Box::new(NoopHook))),
                Instr::None => {}
            }
            let r = eval.eval_module(ast, sl::globals()).map(sl::encode).map_err(|e| format!("{}", e.without_diagnostic()));
            if let Instr::Profile(m) = &instr {
                let retained = matches!(m, ProfileMode::HeapSummaryRetained | ProfileMode::HeapFlameRetained | ProfileMode::HeapRetained);
                if !retained {
                    if let Err(e) = eval.gen_profile() {
                        profile_err = Some(format!("gen_profile({m}) failed: {}", e.without_diagnostic()));
                    }
                }
            }
            r
        };
        let obs = finish_obs(r);
        if let Instr::Profile(m) = &instr {
            let retained = matches!(m, ProfileMode::HeapSummaryRetained | ProfileMode::HeapFlameRetained | ProfileMode::HeapRetained);
            if retained && obs.outcome.starts_with("ok") {
                match module.freeze_named(starlark::values::FrozenHeapName::user("dbg.star")) {
                    Ok(f) => {
                        if let Err(e) = f.heap_profile() {
                            profile_err = Some(format!("heap_profile() after freeze ({m}) failed: {e}"));
                        }
                    }
                    Err(e) => profile_err = Some(format!("freeze failed: {e:?}")),
                }
            }
        }
        obs
    });
    match profile_err {
        Some(e) => Err(e),
        None => Ok(obs),
    }
}

#[derive(Debug)]
struct Client(std::sync::Mutex<mpsc::Sender<Msg>>);
impl DapAdapterClient for Client {
    fn event_stopped(&self) -> starlark::Result<()> {
        let _ = self.0.lock().unwrap().send(Msg::Stopped);
        Ok(())
    }
}

enum Msg {
    Stopped,
    Done(Obs),
}

#[derive(Debug, Clone)]
struct Stop {
    line: i64,
    locals: Vec<(String, String)>,
    frames: usize,
    /// The command that was answered to the previous stop (0 = none/continue, 1 = a step request).
    after_step: bool,
}

enum DbgMode {
    NoBreakpoints,
    Breakpoints(Vec<(i64, Option<String>)>),
    Stepping(Vec<u8>),
    /// Breakpoints plus a generated answer per stop: continue, or step Into / Over / Out.
    Mixed(Vec<(i64, Option<String>)>, Vec<u8>),
}

/// Runs under the debug adapter. Returns the observation and the list of stops.
fn run_debug(src: &str, mode: &DbgMode) -> Result<(Obs, Vec<Stop>), String> {
    let ast = sl::parse("dbg.star", src, &sl::dialect_all()).map_err(|e| format!("parse: {e}"))?;
    let (tx, rx) = mpsc::channel::<Msg>();
    let (adapter, hook) = prepare_dap_adapter(Box::new(Client(std::sync::Mutex::new(tx.clone()))));
    let lines: Vec<(i64, Option<String>)> = match mode {
        DbgMode::Breakpoints(b) | DbgMode::Mixed(b, _) => b.clone(),
        // stepping needs an initial stop: break on the first line that holds a statement
        DbgMode::Stepping(_) => (1..=src.lines().count() as i64).map(|l| (l, None)).collect(),
        DbgMode::NoBreakpoints => Vec::new(),
    };
    if !lines.is_empty() {
        let args = SetBreakpointsArguments {
            breakpoints: Some(lines.iter().map(|(l, c)| SourceBreakpoint { column: None, condition: c.clone(), hit_condition: None, line: *l, log_message: None }).collect()),
            lines: None,
            source: Source { adapter_data: None, checksums: None, name: None, origin: None, path: Some("dbg.star".to_owned()), presentation_hint: None, source_reference: None, sources: None },
            source_modified: None,
        };
        let resolved = resolve_breakpoints(&args, &ast).map_err(|e| format!("resolve_breakpoints: {e}"))?;
        adapter.set_breakpoints("dbg.star", &resolved).map_err(|e| format!("set_breakpoints: {e}"))?;
    }
    let hook: Box<dyn DapAdapterEvalHook> = Box::new(hook);
    let mut stops: Vec<Stop> = Vec::new();
    let mut problem: Option<String> = None;
    let obs = std::thread::scope(|s| {
        let txd = tx.clone();
        s.spawn(move || {
            sl::tx_reset();
            let obs = Module::with_temp_heap(|module| {
                let r = {
                    let mut eval = Evaluator::new(&module);
                    let _ = eval.set_max_tick_count(2_000_000);
                    hook.add_dap_hooks(&mut eval);
                    eval.eval_module(ast, sl::globals()).map(sl::encode).map_err(|e| format!("{}", e.without_diagnostic()))
                };
                finish_obs(r)
            });
            let _ = txd.send(Msg::Done(obs));
        });
        let mut step_i = 0usize;
        let mut last_was_step = false;
        loop {
            match rx.recv_timeout(Duration::from_secs(30)) {
                Ok(Msg::Done(o)) => return Some(o),
                Ok(Msg::Stopped) => {
                    // inspect the stop
                    let line = adapter.top_frame().ok().flatten().map(|f| f.line).unwrap_or(-1);
                    let locals = adapter.variables(0).map(|v| v.locals.into_iter().map(|x| (x.name.to_string(), x.value)).collect()).unwrap_or_default();
                    let frames = adapter.stack_trace(StackTraceArguments { format: None, levels: None, start_frame: None, thread_id: 0 }).map(|b| b.stack_frames.len()).unwrap_or(0);
                    stops.push(Stop { line, locals, frames, after_step: last_was_step });
                    if stops.len() > 20_000 {
                        problem = Some("more than 20000 stops".into());
                    }
                    let r = match mode {
                        DbgMode::Stepping(kinds) => {
                            let k = kinds.get(step_i % kinds.len().max(1)).copied().unwrap_or(0);
                            step_i += 1;
                            adapter.step(match k % 3 {
                                0 => StepKind::Into,
                                1 => StepKind::Over,
                                _ => StepKind::Out,
                            })
                        }
                        DbgMode::Mixed(_, kinds) => {
                            let k = kinds.get(step_i % kinds.len().max(1)).copied().unwrap_or(0);
                            step_i += 1;
                            last_was_step = k % 5 >= 2;
                            match k % 5 {
                                0 | 1 => adapter.continue_(),
                                2 => adapter.step(StepKind::Into),
                                3 => adapter.step(StepKind::Over),
                                _ => adapter.step(StepKind::Out),
                            }
                        }
                        _ => adapter.continue_(),
                    };
                    if let Err(e) = r {
                        problem = Some(format!("continue/step failed: {e}"));
                        return None;
                    }
                }
                Err(_) => {
                    problem = Some("timeout waiting for the evaluation thread".into());
                    // unblock the evaluation thread if it is stopped
                    let _ = adapter.continue_();
                    return None;
                }
            }
        }
    });
    match (obs, problem) {
        (Some(o), None) => Ok((o, stops)),
        (_, Some(p)) => Err(p),
        (None, None) => Err("evaluation thread vanished".into()),
    }
}

/// Parses "M k v1 v2" mark records.
fn mark_records(tx: &[String]) -> Vec<(u32, Vec<String>)> {
    tx.iter()
        .filter_map(|t| t.strip_prefix("M "))
        .map(|t| {
            let mut it = t.splitn(2, ' ');
            let k = it.next().unwrap_or("0").parse().unwrap_or(0);
            let rest = it.next().unwrap_or("");
            (k, crate::props::c10::split_top_level(&format!("[{}]", rest.replace(' ', ","))))
        })
        .collect()
}

/// Debugger rendering of a scalar whose canonical encoding is `enc`.
fn shown_value(enc: &str) -> Option<String> {
    match enc {
        "N" => Some("None".into()),
        "T" => Some("True".into()),
        "F" => Some("False".into()),
        e if e.starts_with('"') => {
            // decode the harness encoding of a string back to text
            let inner = &e[1..e.len() - 1];
            let mut out = String::new();
            let mut cs = inner.chars().peekable();
            while let Some(c) = cs.next() {
                if c == '\\' {
                    match cs.next() {
                        Some('n') => out.push('\n'),
                        Some('t') => out.push('\t'),
                        Some('r') => out.push('\r'),
                        Some('u') => {
                            let mut hex = String::new();
                            for h in cs.by_ref() {
                                if h == '}' {
                                    break;
                                }
                                if h != '{' {
                                    hex.push(h);
                                }
                            }
                            out.push(char::from_u32(u32::from_str_radix(&hex, 16).unwrap_or(63)).unwrap_or('?'));
                        }
                        Some(o) => out.push(o),
                        None => {}
                    }
                } else {
                    out.push(c);
                }
            }
            Some(out)
        }
        e if e.chars().all(|c| c.is_ascii_digit() || c == '-') => Some(e.to_owned()),
        _ => None,
    }
}

impl Prop for C18 {
    fn id(&self) -> &'static str {
        "C18"
    }
    fn cases(&self, tier: Tier) -> u64 {
        match tier {
            Tier::Quick => 5_000,
            Tier::Thorough => 40_000,
        }
    }
    fn choice_len(&self, _tier: Tier) -> (usize, usize) {
        (20, 400)
    }
    fn rule(&self) -> String {
        "Case = generated program (1..3 defs with parameters, locals, loops, branches, calls between defs, a nested def capturing a local, module-level code; ~20% end with fail()) with marker statements mark(k, locals...) on their own lines. Configurations: none; each of the 12 ProfileModes (gen_profile must succeed; retained heap modes via FrozenModule::heap_profile after freezing); a no-op before-statement hook; debug adapter attached without breakpoints; breakpoints on a proptest-chosen subset of marker lines (optionally with constant true/false conditions) continuing at every stop; single-stepping the whole run with a proptest-chosen Into/Over/Out pattern. A controller thread blocks on a channel fed by event_stopped and by completion (no timing dependence). Oracle: (1) transcript and outcome identical to the uninstrumented run in every configuration; (2) for breakpoints inside defs: the sequence of stops on breakpointed marker lines equals the sequence of mark records of those markers (exactly one stop per execution, in order); (3) at such a stop every variable listed in the marker appears in variables(0) with the value the mark record reports, and top_frame is that line. evaluations = configuration runs. Non-trivial = a breakpointed marker inside a def or loop executed >= 2 times; distinct = distinct program.".into()
    }
    fn assumptions(&self) -> Vec<String> {
        vec!["only scalar locals (int, str, bool, None) are compared with the debugger's rendering".into(), "a 30 s silence of the evaluation thread is reported as inconclusive, not as a violation".into()]
    }
    fn workers(&self) -> usize {
        8
    }
    fn floors(&self) -> Vec<(&'static str, f64)> {
        vec![("bp_in_def_hit_twice", 0.2)]
    }
    fn render(&self, _ctx: &mut Ctx, ch: &mut Choices) -> String {
        gen_prog(ch).src
    }
    fn run(&self, ctx: &mut Ctx, ch: &mut Choices) -> CaseResult {
        let p = gen_prog(ch);
        let mut r = CaseResult::new(p.src.clone());
        r.evals = 0;
        let base = match run_plain(&p.src, Instr::None) {
            Ok(o) => o,
            Err(e) => {
                r.fail("generator-bug", format!("{e}\n{}", p.src));
                return r;
            }
        };
        r.evals += 1;
        if base.outcome.contains("tick") {
            r.label("skipped_limit");
            return r;
        }
        let mut compare = |name: &str, o: &Obs, r: &mut CaseResult| {
            if o != &base {
                let what = if o.tx != base.tx {
                    let i = (0..o.tx.len().max(base.tx.len())).find(|i| o.tx.get(*i) != base.tx.get(*i)).unwrap_or(0);
                    format!("transcript differs at record #{i}: {:?} vs {:?}", o.tx.get(i), base.tx.get(i))
                } else {
                    format!("outcome {} vs {}", o.outcome, base.outcome)
                };
                r.fail("instrumentation-interferes", format!("configuration `{name}`: {what}\n{}", p.src));
            }
        };
        // profilers: a proptest-chosen subset in quick runs, all in thorough
        let nmodes = if ctx.tier == Tier::Thorough { MODES.len() } else { 3 };
        let start = ch.idx(MODES.len());
        for i in 0..nmodes {
            let m = &MODES[(start + i) % MODES.len()];
            match run_plain(&p.src, Instr::Profile(m.clone())) {
                Ok(o) => compare(&format!("profile {m}"), &o, &mut r),
                Err(e) => r.fail("profile-failed", format!("{e}\n{}", p.src)),
            }
            r.evals += 1;
        }
        match run_plain(&p.src, Instr::NoopHook) {
            Ok(o) => compare("no-op statement hook", &o, &mut r),
            Err(e) => r.fail("generator-bug", e),
        }
        r.evals += 1;
        // debugger, no breakpoints
        match run_debug(&p.src, &DbgMode::NoBreakpoints) {
            Ok((o, stops)) => {
                compare("debugger attached, no breakpoints", &o, &mut r);
                if !stops.is_empty() {
                    r.fail("spurious-stop", format!("{} stops without any breakpoint\n{}", stops.len(), p.src));
                }
            }
            Err(e) => {
                r.label("dbg_inconclusive");
                println!("INCONCLUSIVE debugger: {e}");
            }
        }
        r.evals += 1;
        // breakpoints on a subset of marker lines
        let chosen: Vec<&Marker> = p.markers.iter().filter(|_| ch.chance(1, 2)).collect();
        let with_cond = ch.chance(1, 4);
        let bps: Vec<(i64, Option<String>)> = chosen.iter().map(|m| (m.line as i64, if with_cond { Some(if m.key % 2 == 0 { "1 == 1".to_owned() } else { "1 == 2".to_owned() }) } else { None })).collect();
        if !bps.is_empty() {
            match run_debug(&p.src, &DbgMode::Breakpoints(bps.clone())) {
                Ok((o, stops)) => {
                    compare("debugger with breakpoints", &o, &mut r);
                    check_breakpoints(ctx, &p, &chosen, with_cond, &o, &stops, &mut r);
                }
                Err(e) => {
                    r.label("dbg_inconclusive");
                    println!("INCONCLUSIVE debugger: {e}");
                }
            }
            r.evals += 1;
        }
        // breakpoints with a generated answer per stop (continue or a step request): a stop reached by `continue` must be on
        // a breakpointed line - a step request that was interrupted by a breakpoint must not fire later
        if !bps.is_empty() {
            let answers: Vec<u8> = (0..(2 + ch.idx(8))).map(|_| ch.below(5) as u8).collect();
            match run_debug(&p.src, &DbgMode::Mixed(bps.clone(), answers.clone())) {
                Ok((o, stops)) => {
                    compare(&format!("debugger with breakpoints, answers {answers:?} (0,1 = continue, 2 = step into, 3 = over, 4 = out)"), &o, &mut r);
                    let bp_lines: Vec<i64> = bps.iter().map(|b| b.0).collect();
                    for (i, st) in stops.iter().enumerate() {
                        if !st.after_step && !bp_lines.contains(&st.line) {
                            r.fail("stop-without-breakpoint", format!("stop #{i} at line {} was reached by `continue` but no breakpoint is set there (breakpoints on lines {bp_lines:?}; answers {answers:?}; stops so far {:?})\n{}", st.line, stops.iter().take(i + 1).map(|s| (s.line, s.after_step)).collect::<Vec<_>>(), p.src));
                            break;
                        }
                    }
                    r.label("mixed_step_continue");
                }
                Err(e) => {
                    r.label("dbg_inconclusive");
                    println!("INCONCLUSIVE debugger: {e}");
                }
            }
            r.evals += 1;
        }
        // single stepping
        let kinds: Vec<u8> = (0..(1 + ch.idx(6))).map(|_| ch.below(3) as u8).collect();
        match run_debug(&p.src, &DbgMode::Stepping(kinds.clone())) {
            Ok((o, stops)) => {
                compare(&format!("debugger single-stepping {kinds:?}"), &o, &mut r);
                if stops.is_empty() && !base.tx.is_empty() {
                    r.fail("no-stop-while-stepping", format!("stepping produced no stop at all\n{}", p.src));
                }
                r.label("stepped");
            }
            Err(e) => {
                r.label("dbg_inconclusive");
                println!("INCONCLUSIVE debugger: {e}");
            }
        }
        r.evals += 1;
        r
    }
}

fn check_breakpoints(ctx: &Ctx, p: &Prog, chosen: &[&Marker], with_cond: bool, o: &Obs, stops: &[Stop], r: &mut CaseResult) {
    let recs = mark_records(&o.tx);
    // expected stop sequence: executions of breakpointed markers (conditions: even keys true, odd false)
    let active: Vec<&&Marker> = chosen.iter().filter(|m| !with_cond || m.key % 2 == 0).collect();
    let expected: Vec<(u32, Vec<String>)> = recs.iter().filter(|(k, _)| active.iter().any(|m| m.key == *k)).cloned().collect();
    let line_to_marker = |line: i64| p.markers.iter().find(|m| m.line as i64 == line);
    if stops.iter().any(|s| line_to_marker(s.line).is_none()) {
        r.fail("stop-off-breakpoint", format!("stopped on a line without a breakpoint: lines {:?}\n{}", stops.iter().map(|s| s.line).collect::<Vec<_>>(), p.src));
        return;
    }
    let got_keys: Vec<u32> = stops.iter().filter_map(|s| line_to_marker(s.line).map(|m| m.key)).collect();
    let want_keys: Vec<u32> = expected.iter().map(|e| e.0).collect();
    // order: equal after collapsing consecutive repetitions
    let collapse = |v: &[u32]| {
        let mut o: Vec<u32> = Vec::new();
        for k in v {
            if o.last() != Some(k) {
                o.push(*k);
            }
        }
        o
    };
    if collapse(&got_keys) != collapse(&want_keys) {
        r.fail("breakpoint-hit-count", format!("stops on breakpointed marker lines (by marker key) {:?} but those markers executed as {:?}\n{}", got_keys, want_keys, p.src));
        return;
    }
    // counts: exactly one stop per execution. Known finding (while open): module-level statements that are
    // preceded by a GC safepoint stop twice.
    let mut counts: std::collections::HashMap<u32, u32> = Default::default();
    for m in chosen {
        let e = want_keys.iter().filter(|k| **k == m.key).count();
        let g = got_keys.iter().filter(|k| **k == m.key).count();
        counts.insert(m.key, e as u32);
        if g != e {
            let known_shape = !m.in_def && g > e && g <= 2 * e;
            r.fail(if known_shape { "toplevel-breakpoint-hit-twice" } else { "breakpoint-hit-count" }, format!("marker {} (line {}, {}): {g} stops for {e} executions\n{}", m.key, m.line, if m.in_def { "inside a def" } else { "module level" }, p.src));
        }
    }
    // variables shown at each stop: inside defs stops and executions correspond 1:1 in order
    let mut next_exec: std::collections::HashMap<u32, usize> = Default::default();
    for s in stops {
        let Some(m) = line_to_marker(s.line) else { continue };
        let execs: Vec<&(u32, Vec<String>)> = expected.iter().filter(|e| e.0 == m.key).collect();
        let candidates: Vec<&Vec<String>> = if m.in_def {
            let i = next_exec.entry(m.key).or_insert(0);
            let c = execs.get(*i).map(|e| vec![&e.1]).unwrap_or_default();
            *i += 1;
            c
        } else {
            execs.iter().map(|e| &e.1).collect()
        };
        if candidates.is_empty() {
            continue;
        }
        let matches = |vals: &Vec<String>| -> Result<(), (String, String)> {
            for (name, enc) in m.vars.iter().zip(vals.iter()) {
                let Some(want) = shown_value(enc) else { continue };
                match s.locals.iter().find(|(n, _)| n == name) {
                    Some((_, shown)) if *shown == want => {}
                    Some((_, shown)) => return Err(("debugger-wrong-value".into(), format!("variable {name} shown as {shown:?}, the program has {want:?}"))),
                    None => return Err(("debugger-missing-variable".into(), format!("variable {name} (= {want:?}) is not among the shown variables {:?}", s.locals.iter().map(|x| &x.0).collect::<Vec<_>>()))),
                }
            }
            Ok(())
        };
        let results: Vec<_> = candidates.iter().map(|c| matches(c)).collect();
        if !results.iter().any(|r| r.is_ok()) {
            if let Some(Err((class, msg))) = results.into_iter().next() {
                r.fail(&class, format!("stop at line {} (marker {}): {msg}\n{}", s.line, m.key, p.src));
            }
        }
    }
    if p.markers.iter().any(|m| m.in_def && counts.get(&m.key).copied().unwrap_or(0) >= 2) {
        r.label("bp_in_def_hit_twice");
        r.nontrivial_self();
    }
}
