//! C14 — evaluation is deterministic across runs, processes and memory layouts.
//! Each case (a batch of programs) is executed by four fresh processes that differ in ASLR,
//! pre-allocation noise, environment size and evaluating thread; every process also runs each program
//! twice. Oracle: byte equality of the complete observable transcript.

use std::collections::HashSet;
use std::process::Command;
use std::process::Stdio;

use serde_json::Value as J;
use serde_json::json;
use starlark::analysis::AstModuleLint;
use starlark::typing::AstModuleTypecheck;

use crate::engine::*;
use crate::prog;
use crate::sl;

pub struct C14;

const PROBES: &[&str] = &[
    "emit(dir(struct(zeta = 1, alpha = 2, mid = 3)))",
    "emit([k for k in {\"b\": 1, \"a\": 2, \"c\": 3, 10: 4, (1, 2): 5}])",
    "emit(list(set([\"x\", \"y\", \"z\", \"w\", 5, 4, 3])))",
    "emit((hash(\"hello\"), hash(\"\"), hash(\"é名\")))",
    "emit(json.encode({\"k\": [1, 2.5, None, True], \"z\": {\"a\": \"é\"}, \"s\": struct(q = 1, p = 2)}))",
    "emit((repr(len), repr(dfunc), str(DRec), repr(DEn(\"x\")), repr(DRec(a = 1)), str(struct(b = 1, a = 2))))",
    "emit((dir(\"\")[:6], dir([]), dir({})[:4], dir(DRec(a = 1)), dir(DEn)))",
    "emit(str(set([(1, 2), \"a\", 3.5])) + str({\"k\": set([1])}))",
    "emit(sorted({\"b\": 1, \"a\": 2}.items()) + sorted([\"b\", \"a\", \"C\"]))",
    "emit({dfunc: 1, len: 2}.keys())",
    "print(\"printed\", [1, \"a\"], {\"k\": None})",
    "emit(\"{} {!r} %s\".format(dfunc, DRec) % DEn)",
    "emit([x for x in DEn] + [DEn[0].index, len(DEn)])",
    "emit(str(typing.Any) + str(list[int]) + str(int | None) + repr(eval_type(dict[str, typing.Any])))",
];

const FAILING: &[&str] = &[
    "emit(struct(zeta = 1, alpha = 2).zeto)",
    "emit(DRec(a = 1).b)",
    "emit([1, 2].apend(3))",
    "emit(\"abc\".uper())",
    "emit(lenn([1]))",
    "emit(dfunk(1))",
    "def _outer(x):\n    return _inner(x)\ndef _inner(y):\n    return {\"a\": 1}[y]\nemit(_outer(\"zz\"))",
    "emit(DEn(\"nope\"))",
    "emit(DRec(a = \"wrong type\"))",
    "def _t(x: int) -> str:\n    return x\nemit(_t(1))",
    "emit({\"b\": 1, \"a\": 2}[\"c\"])",
    "emit(1 + \"a\")",
    "fail(\"msg\", [1, 2], {\"k\": \"v\"})",
    "load(\"nonexistent.star\", \"x\")",
    "emit(json.decode(\"{bad json\"))",
    "emit(typing.Nope)",
];

/// Statement groups that make the linter and the static type checker produce SEVERAL diagnostics at once (their
/// relative order and wording is part of the observable output).
const DIAGNOSTIC_RICH: &[&str] = &[
    "def _lint1(a, b, c):\n    unused1 = 1\n    unused2 = 2\n    unused3 = [a]\n    return b\n    unreachable = 3\n",
    "_dup = {\"k\": 1, \"k\": 2, \"j\": 3, \"j\": 4, 5: 6, 5: 7}\n",
    "def _lint2(x):\n    if x:\n        return 1\n    else:\n        pass\n\ndef _lint2(x):\n    return x\n",
    "def _ty1(x: int) -> str:\n    y = x + \"a\"\n    z = x.nope\n    w = [1, 2].appendd(3)\n    return x\n",
    "def _ty2(a: list[int], b: dict[str, int]):\n    a.append(\"s\")\n    b[1] = 2\n    return a.upper() + b.lower()\n",
    "def _ty3():\n    _ty3(1)\n    len()\n    len(1, 2)\n    \"a\".startswith(1)\n    return DRec(b = 1, c = 2)\n",
    "def _lint3(zeta, alpha, mid, _private, *args, **kwargs):\n    for zeta in [1]:\n        pass\n    for alpha in [2]:\n        pass\n    [mid for mid in [3]]\n",
    "load(\"nonexistent.star\", \"u1\", \"u2\", u3 = \"u4\")\n",
    "def _lint4():\n    a, b, c = 1, 2, 3\n    d = e = 4\n    return None\n    return 5\n",
];

const PRELUDE: &str = "DRec = record(a = int)\nDEn = enum(\"x\", \"y\", \"z\")\ndef dfunc(p, q = 1, *args, **kw):\n    return p\n";

fn gen_program(ch: &mut Choices) -> String {
    let opts = prog::Opts { profile: prog::Profile::Full, max_stmts: 10, fail_pct: 10, inner_emits: false, ..Default::default() };
    let body = {
        let mut g = prog::Gen::new(ch, opts);
        prog::render_plain(&g.program())
    };
    let mut s = String::from(PRELUDE);
    s.push_str(&body);
    let n = 1 + ch.idx(4);
    for _ in 0..n {
        s.push_str(*ch.pick(PROBES));
        s.push('\n');
    }
    if ch.chance(1, 2) {
        let k = 1 + ch.idx(3);
        let start = ch.idx(DIAGNOSTIC_RICH.len());
        for i in 0..k {
            let g = DIAGNOSTIC_RICH[(start + i * 4) % DIAGNOSTIC_RICH.len()];
            if g.starts_with("load(") {
                // a load statement must come first
                s = format!("{g}{s}");
            } else {
                s.push_str(g);
            }
        }
    }
    if ch.chance(2, 3) {
        s.push_str(*ch.pick(FAILING));
        s.push('\n');
    }
    s
}

/// The complete observable output for one program.
pub fn observe(src: &str) -> String {
    let mut out = String::new();
    let r = std::panic::catch_unwind(|| {
        let cfg = sl::RunCfg { max_ticks: 300_000, max_heap: 256 << 20, ..Default::default() };
        let o = sl::run_src("det.star", src, &cfg, &[("hostile.star", crate::props::c07::hostile_lib())]);
        let mut s = String::new();
        for t in &o.tx {
            s.push_str(t);
            s.push('\n');
        }
        match &o.result {
            Ok(v) => s.push_str(&format!("RESULT {v}\n")),
            Err(e) => s.push_str(&format!("ERROR[{}] {}\n", e.kind, e.full)),
        }
        for (k, v) in &o.vars {
            s.push_str(&format!("VAR {k} = {v}\n"));
        }
        s
    });
    match r {
        Ok(s) => out.push_str(&s),
        Err(e) => out.push_str(&format!("PANIC in evaluation: {}\n", panic_msg(&e))),
    }
    // static checker and linter on the same file
    let r = std::panic::catch_unwind(|| {
        let mut s = String::new();
        if let Ok(ast) = sl::parse("det.star", src, &sl::dialect_all()) {
            let names: HashSet<String> = sl::globals().names().map(|n| n.as_str().to_owned()).collect();
            for l in ast.lint(Some(&names)) {
                s.push_str(&format!("LINT {} [{}] {:?} {}\n", l, l.short_name, l.severity, l.original));
            }
            let (errors, _tm, _iface, approx) = ast.typecheck(sl::globals(), &Default::default());
            for e in errors {
                s.push_str(&format!("TYPECHECK {e}\n"));
            }
            for a in approx {
                s.push_str(&format!("APPROX {a}\n"));
            }
        }
        s
    });
    match r {
        Ok(s) => out.push_str(&s),
        Err(e) => out.push_str(&format!("PANIC in static analysis: {}\n", panic_msg(&e))),
    }
    out
}

/// `svf det-child <file> <variant>`: prints a JSON list of [first, second] observations per program.
pub fn child_main(path: &str, variant: u32) -> i32 {
    install_quiet_panic_hook();
    let text = std::fs::read_to_string(path).unwrap_or_default();
    let progs: Vec<String> = serde_json::from_str(&text).unwrap_or_default();
    // pre-allocation noise: shifts malloc and arena addresses
    let mut noise: Vec<Vec<u8>> = Vec::new();
    let rounds = [0usize, 37, 211, 1009][variant as usize % 4];
    for i in 0..rounds {
        noise.push(vec![i as u8; 17 + (i * 7919) % 40_000]);
        if i % 3 == 0 {
            noise.swap_remove(i / 3);
        }
    }
    if variant >= 2 {
        // dummy Starlark heaps before the run
        for i in 0..(variant * 3) {
            let _ = sl::run_src("noise.star", &format!("x = [i * {i} for i in range(300)]\ny = {{str(k): k for k in x}}\n"), &sl::RunCfg::default(), &[]);
        }
    }
    let work = move || -> Vec<(String, String)> { progs.iter().map(|p| (observe(p), observe(p))).collect() };
    let results = match variant % 4 {
        0 => std::thread::Builder::new().stack_size(WORKER_STACK).spawn(work).unwrap().join().unwrap_or_default(),
        1 => {
            // run on the main thread (default 8 MiB stack)
            work()
        }
        _ => {
            // the n-th spawned thread
            let mut hs = Vec::new();
            for _ in 0..(variant + 2) {
                hs.push(std::thread::spawn(|| std::thread::sleep(std::time::Duration::from_millis(1))));
            }
            let r = std::thread::Builder::new().stack_size(WORKER_STACK).spawn(work).unwrap().join().unwrap_or_default();
            for h in hs {
                let _ = h.join();
            }
            r
        }
    };
    drop(noise);
    println!("{}", json!(results.iter().map(|(a, b)| json!([a, b])).collect::<Vec<_>>()));
    0
}

fn spawn_child(path: &str, variant: u32) -> Option<Vec<(String, String)>> {
    let exe = std::env::current_exe().ok()?;
    let mut cmd = if variant % 2 == 1 {
        // address-space layout randomisation off
        let mut c = Command::new("setarch");
        c.arg("x86_64").arg("-R").arg(&exe);
        c
    } else {
        Command::new(&exe)
    };
    cmd.arg("det-child").arg(path).arg(variant.to_string());
    if variant >= 2 {
        // different environment size moves the initial stack
        cmd.env("SVF_PADDING", "x".repeat(1000 * variant as usize));
        cmd.env("RUST_MIN_STACK", "33554432");
    }
    let out = cmd.stdin(Stdio::null()).stderr(Stdio::null()).output().ok()?;
    let text = String::from_utf8_lossy(&out.stdout);
    let line = text.lines().rev().find(|l| l.starts_with('['))?;
    let j: J = serde_json::from_str(line).ok()?;
    Some(j.as_array()?.iter().map(|p| (p[0].as_str().unwrap_or("").to_owned(), p[1].as_str().unwrap_or("").to_owned())).collect())
}

fn first_diff(a: &str, b: &str) -> String {
    for (i, (la, lb)) in a.lines().zip(b.lines()).enumerate() {
        if la != lb {
            return format!("line {i}: {:?} vs {:?}", truncate(la, 300), truncate(lb, 300));
        }
    }
    format!("different number of lines: {} vs {}", a.lines().count(), b.lines().count())
}

impl Prop for C14 {
    fn id(&self) -> &'static str {
        "C14"
    }
    fn timeout(&self, tier: Tier) -> std::time::Duration {
        match tier {
            Tier::Quick => std::time::Duration::from_secs(2700),
            Tier::Thorough => std::time::Duration::from_secs(6 * 3600),
        }
    }
    fn cases(&self, tier: Tier) -> u64 {
        match tier {
            Tier::Quick => 320,
            Tier::Thorough => 12_000,
        }
    }
    fn choice_len(&self, _tier: Tier) -> (usize, usize) {
        (100, 2500)
    }
    fn rule(&self) -> String {
        "Case = batch of 10 programs plus 24 ill-typed single calls (every builtin/method x hostile arguments incl. several unknown/duplicated keywords, generator shared with C07) (typed generator, profile full, plus determinism probes: iteration order of dicts/sets/struct fields/dir(), hash(), json.encode, repr of functions/types/records/enums, print, and in 2/3 of programs a failing statement chosen from typos with did-you-mean suggestions, missing attributes, type-annotation failures, nested call stacks, bad load, json errors). Each batch is executed by 4 fresh processes: {ASLR on, worker thread} / {ASLR off via setarch -R, main thread, allocation noise} / {ASLR on, n-th spawned thread, larger noise, dummy Starlark heaps, padded environment} / {ASLR off, other thread, largest noise}; std's per-process hash seeds differ by themselves; every process runs each program twice. Oracle: byte equality of the full observation (emit/print transcript, result, complete error Display with diagnostics and call stack, final globals, linter output, static type-checker errors and approximations). evaluations = program executions compared. Non-trivial = the program's observation contains an error, a probe output, lint or typecheck output; distinct = distinct program text.".into()
    }
    fn assumptions(&self) -> Vec<String> {
        vec!["addresses printed by debug()/pprint widths and profile outputs are not in the program alphabet".into(), "a child process that dies is reported as inconclusive for that batch unless all variants die alike".into()]
    }
    fn shrink_iters(&self) -> u32 {
        80
    }
    fn workers(&self) -> usize {
        8
    }
    fn run(&self, ctx: &mut Ctx, ch: &mut Choices) -> CaseResult {
        let mut progs: Vec<String> = (0..10).map(|_| gen_program(ch)).collect();
        // the error zoo: ill-typed calls of every builtin/method with hostile arguments (generator of C07); what matters
        // here is the complete error text they produce (argument-binding errors list names, suggestions, ...)
        for _ in 0..24 {
            let sn = crate::props::c07::gen_snippet(ch);
            // open finding of C07 (debug() on a self-containing value aborts): not this property's business
            if sn.contains("debug(") && crate::props::c07::POOL.iter().any(|v| crate::props::c07::is_cyclic_pool(v) && sn.contains(v)) {
                continue;
            }
            progs.push(format!("{}{sn}\n", crate::props::c07::PRELUDE));
        }
        let dir = format!("{WORK_DIR}/C14");
        let _ = std::fs::create_dir_all(&dir);
        let path = format!("{dir}/batch-{}-{}.json", std::process::id(), ctx.worker);
        let _ = std::fs::write(&path, serde_json::to_string(&progs).unwrap());
        let mut r = CaseResult::new(progs[0].clone());
        r.evals = 0;
        let outs: Vec<Option<Vec<(String, String)>>> = (0..4).map(|v| spawn_child(&path, v)).collect();
        let _ = std::fs::remove_file(&path);
        let Some(base) = outs[0].clone() else {
            if outs.iter().all(|o| o.is_none()) {
                // every variant died: a crash, but C07's business; report it as a determinism-neutral failure
                r.fail("child-died", format!("all four child processes died on this batch\n{}", progs.join("\n# ----\n")));
            } else {
                r.fail("child-died-differently", format!("variant 0 died but others did not\n{}", progs.join("\n# ----\n")));
            }
            return r;
        };
        for (v, o) in outs.iter().enumerate() {
            let Some(o) = o else {
                r.fail("child-died-differently", format!("variant {v} died but variant 0 did not\n{}", progs.join("\n# ----\n")));
                continue;
            };
            for (i, (a, b)) in o.iter().enumerate() {
                r.evals += 2;
                if a != b {
                    r.fail("nondeterministic-in-process", format!("variant {v}: two runs in the same process differ: {}\n{}", first_diff(a, b), progs[i]));
                } else if base.get(i).map(|x| &x.0) != Some(a) {
                    r.fail("nondeterministic-across-processes", format!("variant {v} differs from variant 0: {}\n{}", first_diff(&base[i].0, a), progs[i]));
                }
            }
        }
        for (i, p) in progs.iter().enumerate() {
            let o = &base[i].0;
            if o.contains("ERROR[") || o.contains("LINT ") || o.contains("TYPECHECK ") || PROBES.iter().any(|pr| p.contains(pr)) {
                r.nontrivial.push(fnv(p.as_bytes()));
            }
            if o.contains("ERROR[") {
                r.label("has_error");
            }
            if o.contains("did you mean") || o.contains("Did you mean") {
                r.label("has_suggestion");
            }
            if o.contains("LINT ") {
                r.label("has_lint");
            }
            if o.contains("TYPECHECK ") {
                r.label("has_typecheck");
            }
        }
        r
    }
}
