//! C16 — runtime type checks accept exactly the values a type denotes, on every check path.

use starlark::values::Value;
use starlark::values::list::ListRef;
use starlark::values::typing::TypeCompiled;

use crate::engine::*;
use crate::props::c10::split_top_level;
use crate::sl;

pub struct C16;

#[derive(Clone, Debug, PartialEq)]
enum T {
    Any,
    Never,
    NoneT,
    Bool,
    Int,
    Float,
    Str,
    List(Option<Box<T>>),
    Dict(Option<(Box<T>, Box<T>)>),
    Set(Option<Box<T>>),
    TupleAny,
    TupleOf(Vec<T>),
    TupleVar(Box<T>),
    Union(Vec<T>),
    Callable,
    Iterable,
    Rec(u8),
    Enum(u8),
}

impl T {
    fn src(&self) -> String {
        match self {
            T::Any => "typing.Any".into(),
            T::Never => "typing.Never".into(),
            T::NoneT => "None".into(),
            T::Bool => "bool".into(),
            T::Int => "int".into(),
            T::Float => "float".into(),
            T::Str => "str".into(),
            T::List(None) => "list".into(),
            T::List(Some(t)) => format!("list[{}]", t.src()),
            T::Dict(None) => "dict".into(),
            T::Dict(Some((k, v))) => format!("dict[{}, {}]", k.src(), v.src()),
            T::Set(None) => "set".into(),
            T::Set(Some(t)) => format!("set[{}]", t.src()),
            T::TupleAny => "tuple".into(),
            // The implemented spelling of a fixed-arity tuple type is a tuple of types; the documented
            // `tuple[T1, T2]` does not parse (known finding, probe only).
            T::TupleOf(ts) if ts.len() == 1 => format!("({},)", ts[0].src()),
            T::TupleOf(ts) => format!("({})", ts.iter().map(|t| t.src()).collect::<Vec<_>>().join(", ")),
            T::TupleVar(t) => format!("tuple[{}, ...]", t.src()),
            T::Union(ts) => {
                // A tuple-of-types literal has no `|` operator of its own: it may only appear as a right operand.
                let mut ordered: Vec<&T> = ts.iter().filter(|t| !matches!(t, T::TupleOf(_))).collect();
                ordered.extend(ts.iter().filter(|t| matches!(t, T::TupleOf(_))));
                format!("({})", ordered.iter().map(|t| t.src()).collect::<Vec<_>>().join(" | "))
            }
            T::Callable => "typing.Callable".into(),
            T::Iterable => "typing.Iterable".into(),
            // Rec(3) / Enum(3): declared in another module under the SAME names and shapes as R1 / E1, loaded under an alias
            T::Rec(3) => "R1twin".into(),
            T::Enum(3) => "E1twin".into(),
            T::Rec(i) => format!("R{i}"),
            T::Enum(i) => format!("E{i}"),
        }
    }
    /// Contains a fixed-arity tuple type (`tuple[T]`, `tuple[T, U]`, ...).
    fn has_fixed_tuple(&self) -> bool {
        match self {
            T::TupleOf(_) => true,
            T::List(Some(t)) | T::Set(Some(t)) | T::TupleVar(t) => t.has_fixed_tuple(),
            T::Dict(Some((k, v))) => k.has_fixed_tuple() || v.has_fixed_tuple(),
            T::Union(ts) => ts.iter().any(|t| t.has_fixed_tuple()),
            _ => false,
        }
    }
    fn depth(&self) -> u32 {
        match self {
            T::List(Some(t)) | T::Set(Some(t)) | T::TupleVar(t) => 1 + t.depth(),
            T::Dict(Some((k, v))) => 1 + k.depth().max(v.depth()),
            T::TupleOf(ts) | T::Union(ts) => 1 + ts.iter().map(|t| t.depth()).max().unwrap_or(0),
            _ => 0,
        }
    }
}

#[derive(Clone, Debug, PartialEq)]
enum V {
    None,
    Bool,
    Int,
    Float,
    Str,
    List(Vec<V>),
    Dict(Vec<(V, V)>),
    Set(Vec<V>),
    Tuple(Vec<V>),
    Range,
    Rec(u8),
    EnumV(u8),
    Func,
    Native,
    Partial,
    Struct,
    RecType,
    EnumType,
}

/// Reference denotation written from docs/types.md. `None` = the documentation does not settle it.
fn denotes(t: &T, v: &V) -> Option<bool> {
    fn all<'a>(t: &T, vs: impl Iterator<Item = &'a V>) -> Option<bool> {
        let mut unknown = false;
        for v in vs {
            match denotes(t, v) {
                Some(false) => return Some(false),
                None => unknown = true,
                Some(true) => {}
            }
        }
        if unknown { None } else { Some(true) }
    }
    match t {
        T::Any => Some(true),
        T::Never => Some(false),
        T::NoneT => Some(*v == V::None),
        T::Bool => Some(*v == V::Bool),
        T::Int => Some(*v == V::Int),
        T::Float => Some(*v == V::Float),
        T::Str => Some(*v == V::Str),
        T::List(None) => Some(matches!(v, V::List(_))),
        T::List(Some(e)) => match v {
            V::List(xs) => all(e, xs.iter()),
            _ => Some(false),
        },
        T::Set(None) => Some(matches!(v, V::Set(_))),
        T::Set(Some(e)) => match v {
            V::Set(xs) => all(e, xs.iter()),
            _ => Some(false),
        },
        T::Dict(None) => Some(matches!(v, V::Dict(_))),
        T::Dict(Some((k, val))) => match v {
            V::Dict(kv) => match (all(k, kv.iter().map(|x| &x.0)), all(val, kv.iter().map(|x| &x.1))) {
                (Some(false), _) | (_, Some(false)) => Some(false),
                (Some(true), Some(true)) => Some(true),
                _ => None,
            },
            _ => Some(false),
        },
        T::TupleAny => Some(matches!(v, V::Tuple(_))),
        T::TupleOf(ts) => match v {
            V::Tuple(xs) if xs.len() == ts.len() => {
                let mut unknown = false;
                for (t, x) in ts.iter().zip(xs) {
                    match denotes(t, x) {
                        Some(false) => return Some(false),
                        None => unknown = true,
                        _ => {}
                    }
                }
                if unknown { None } else { Some(true) }
            }
            _ => Some(false),
        },
        T::TupleVar(e) => match v {
            V::Tuple(xs) => all(e, xs.iter()),
            _ => Some(false),
        },
        T::Union(ts) => {
            let mut unknown = false;
            for t in ts {
                match denotes(t, v) {
                    Some(true) => return Some(true),
                    None => unknown = true,
                    _ => {}
                }
            }
            if unknown { None } else { Some(false) }
        }
        T::Callable => match v {
            V::Func | V::Native | V::Partial => Some(true),
            // Is a record/enum *type* "something that can be called as a function"? The doc does not say.
            V::RecType | V::EnumType => None,
            _ => Some(false),
        },
        T::Iterable => match v {
            V::List(_) | V::Dict(_) | V::Set(_) | V::Tuple(_) => Some(true),
            // range, strings and enum types: not settled by the documentation
            V::Range | V::Str | V::EnumType => None,
            _ => Some(false),
        },
        T::Rec(i) => Some(*v == V::Rec(*i)),
        T::Enum(i) => Some(*v == V::EnumV(*i)),
    }
}

/// The union simplification the implementation applies (typing/ty.rs, Ty::unions "merge adjacent elements"):
/// `list[A] | list[B]` becomes `list[A | B]`, `dict[K1, V1] | dict[K2, V2]` becomes `dict[K1 | K2, V1 | V2]`, at every
/// level. Used only to recognise the open finding `union-of-containers-merged`: an answer that disagrees with the
/// documented denotation but agrees with the denotation of the merged type.
fn merged(t: &T) -> T {
    match t {
        T::List(Some(e)) => T::List(Some(Box::new(merged(e)))),
        T::Set(Some(e)) => T::Set(Some(Box::new(merged(e)))),
        T::TupleVar(e) => T::TupleVar(Box::new(merged(e))),
        T::Dict(Some((k, v))) => T::Dict(Some((Box::new(merged(k)), Box::new(merged(v))))),
        T::TupleOf(ts) => T::TupleOf(ts.iter().map(merged).collect()),
        T::Union(ts) => {
            // flatten, then merge the list members and the dict members
            let mut flat: Vec<T> = Vec::new();
            for m in ts.iter().map(merged) {
                match m {
                    T::Union(inner) => flat.extend(inner),
                    o => flat.push(o),
                }
            }
            let lists: Vec<T> = flat.iter().filter_map(|m| if let T::List(Some(e)) = m { Some((**e).clone()) } else { None }).collect();
            let dicts: Vec<(T, T)> = flat.iter().filter_map(|m| if let T::Dict(Some((k, v))) = m { Some(((**k).clone(), (**v).clone())) } else { None }).collect();
            let mut out: Vec<T> = flat.into_iter().filter(|m| !matches!(m, T::List(Some(_)) | T::Dict(Some(_)))).collect();
            if !lists.is_empty() {
                out.push(T::List(Some(Box::new(if lists.len() == 1 { lists[0].clone() } else { merged(&T::Union(lists)) }))));
            }
            if !dicts.is_empty() {
                let (ks, vs): (Vec<T>, Vec<T>) = dicts.into_iter().unzip();
                let k = if ks.len() == 1 { ks[0].clone() } else { merged(&T::Union(ks)) };
                let v = if vs.len() == 1 { vs[0].clone() } else { merged(&T::Union(vs)) };
                out.push(T::Dict(Some((Box::new(k), Box::new(v)))));
            }
            if out.len() == 1 { out.pop().unwrap() } else { T::Union(out) }
        }
        o => o.clone(),
    }
}

const SIG_UNION_MERGED: &str = "union-of-containers-merged";

fn values() -> Vec<(&'static str, V)> {
    use V::*;
    vec![
        ("None", None),
        ("True", Bool),
        ("False", Bool),
        ("0", Int),
        ("1", Int),
        ("-1", Int),
        ("1099511627776", Int),
        ("340282366920938463463374607431768211456", Int),
        ("1.5", Float),
        ("0.0", Float),
        ("\"\"", Str),
        ("\"a\"", Str),
        ("[]", List(vec![])),
        ("[1]", List(vec![Int])),
        ("[\"a\"]", List(vec![Str])),
        ("[1, \"a\"]", List(vec![Int, Str])),
        ("[1, True]", List(vec![Int, Bool])),
        ("[1, 1.5]", List(vec![Int, Float])),
        ("[[1]]", List(vec![List(vec![Int])])),
        ("[[1], [\"a\"]]", List(vec![List(vec![Int]), List(vec![Str])])),
        ("[None]", List(vec![None])),
        ("[(1, \"a\")]", List(vec![Tuple(vec![Int, Str])])),
        ("{}", Dict(vec![])),
        ("{\"a\": 1}", Dict(vec![(Str, Int)])),
        ("{1: \"a\"}", Dict(vec![(Int, Str)])),
        ("{\"a\": 1, \"b\": \"c\"}", Dict(vec![(Str, Int), (Str, Str)])),
        ("{\"a\": 1, 2: 3}", Dict(vec![(Str, Int), (Int, Int)])),
        ("{\"a\": [1]}", Dict(vec![(Str, List(vec![Int]))])),
        ("set()", Set(vec![])),
        ("set([1])", Set(vec![Int])),
        ("set([\"a\"])", Set(vec![Str])),
        ("set([1, \"a\"])", Set(vec![Int, Str])),
        ("()", Tuple(vec![])),
        ("(1,)", Tuple(vec![Int])),
        ("(\"a\",)", Tuple(vec![Str])),
        ("(1, \"a\")", Tuple(vec![Int, Str])),
        ("(\"a\", 1)", Tuple(vec![Str, Int])),
        ("(1, 2)", Tuple(vec![Int, Int])),
        ("(1, 2, 3)", Tuple(vec![Int, Int, Int])),
        ("(1, \"a\", None)", Tuple(vec![Int, Str, None])),
        ("((1,),)", Tuple(vec![Tuple(vec![Int])])),
        ("([1], {})", Tuple(vec![List(vec![Int]), Dict(vec![])])),
        ("range(3)", Range),
        ("R1(a = 1)", Rec(1)),
        ("R2(a = 1)", Rec(2)),
        ("R1twin(a = 1)", Rec(3)),
        ("E1twin(\"x\")", EnumV(3)),
        ("[R1(a = 1), R1twin(a = 1)]", List(vec![Rec(1), Rec(3)])),
        ("E1(\"x\")", EnumV(1)),
        ("E2(\"x\")", EnumV(2)),
        ("[R1(a = 1)]", List(vec![Rec(1)])),
        ("[R1(a = 1), R2(a = 1)]", List(vec![Rec(1), Rec(2)])),
        ("(E1(\"x\"), E2(\"x\"))", Tuple(vec![EnumV(1), EnumV(2)])),
        ("afunc", Func),
        ("(lambda x: x)", Func),
        ("len", Native),
        ("partial(afunc, 1)", Partial),
        ("struct(a = 1)", Struct),
        ("R1", RecType),
        ("E1", EnumType),
        ("[afunc]", List(vec![Func])),
    ]
}

fn atoms() -> Vec<T> {
    vec![T::Any, T::Never, T::NoneT, T::Bool, T::Int, T::Float, T::Str, T::List(None), T::Dict(None), T::Set(None), T::TupleAny, T::Callable, T::Iterable, T::Rec(1), T::Rec(2), T::Enum(1), T::Enum(2), T::Rec(3), T::Enum(3)]
}

/// All type expressions of depth <= 2 built with one constructor over atoms or depth-1 types (sampled
/// deterministically for the widest constructors).
fn types_depth2() -> Vec<T> {
    let a = atoms();
    let mut d1: Vec<T> = vec![T::TupleOf(vec![])];
    for x in &a {
        d1.push(T::List(Some(Box::new(x.clone()))));
        d1.push(T::Set(Some(Box::new(x.clone()))));
        d1.push(T::TupleVar(Box::new(x.clone())));
        d1.push(T::TupleOf(vec![x.clone()]));
    }
    for x in &a {
        for y in &a {
            d1.push(T::Dict(Some((Box::new(x.clone()), Box::new(y.clone())))));
            d1.push(T::TupleOf(vec![x.clone(), y.clone()]));
            if x != y {
                d1.push(T::Union(vec![x.clone(), y.clone()]));
            }
        }
    }
    for (i, x) in a.iter().enumerate() {
        let y = &a[(i * 7 + 3) % a.len()];
        let z = &a[(i * 5 + 1) % a.len()];
        d1.push(T::TupleOf(vec![x.clone(), y.clone(), z.clone()]));
        d1.push(T::Union(vec![x.clone(), y.clone(), z.clone()]));
    }
    // unions whose members are parametrised containers: every ordered pair of atoms under the same constructor, and a
    // deterministic sample of mixed constructors and of dict pairs
    let mut container_unions: Vec<T> = Vec::new();
    for (i, x) in a.iter().enumerate() {
        for (j, y) in a.iter().enumerate() {
            if x == y {
                continue;
            }
            let (bx, by) = (Box::new(x.clone()), Box::new(y.clone()));
            container_unions.push(T::Union(vec![T::List(Some(bx.clone())), T::List(Some(by.clone()))]));
            container_unions.push(T::Union(vec![T::Set(Some(bx.clone())), T::Set(Some(by.clone()))]));
            container_unions.push(T::Union(vec![T::TupleVar(bx.clone()), T::TupleVar(by.clone())]));
            // (a union of two tuple-of-types literals cannot be written: the literal has no `|`; one literal may be the
            // right operand of a union that starts with a proper type)
            container_unions.push(T::Union(vec![T::TupleVar(bx.clone()), T::TupleOf(vec![y.clone()])]));
            let z = &a[(i * 3 + j * 5 + 1) % a.len()];
            let w = &a[(i * 7 + j + 2) % a.len()];
            container_unions.push(T::Union(vec![T::Dict(Some((bx.clone(), Box::new(z.clone())))), T::Dict(Some((by.clone(), Box::new(w.clone()))))]));
            match (i + j) % 4 {
                0 => container_unions.push(T::Union(vec![T::List(Some(bx)), T::Set(Some(by))])),
                1 => container_unions.push(T::Union(vec![T::List(Some(bx)), T::TupleVar(by)])),
                2 => container_unions.push(T::Union(vec![T::List(Some(bx)), T::List(Some(by)), z.clone()])),
                _ => container_unions.push(T::Union(vec![T::Dict(Some((bx, by.clone()))), T::List(Some(by))])),
            }
        }
    }
    // every atom united with every depth-1 type (the matcher factory special-cases unions by the shape of their members:
    // none_or_basic, any_of_two_basic, ...), and lists / variable tuples of every two-atom union
    for x in &a {
        for y in &d1 {
            if matches!(y, T::Union(_)) {
                continue;
            }
            container_unions.push(T::Union(vec![x.clone(), y.clone()]));
        }
    }
    for (i, x) in a.iter().enumerate() {
        for y in a.iter().skip(i + 1) {
            let u = T::Union(vec![x.clone(), y.clone()]);
            container_unions.push(T::List(Some(Box::new(u.clone()))));
            container_unions.push(T::Dict(Some((Box::new(T::Str), Box::new(u.clone())))));
            container_unions.push(T::Dict(Some((Box::new(u.clone()), Box::new(T::Any)))));
            container_unions.push(T::TupleVar(Box::new(u)));
        }
    }
    // every three-member union of distinct atoms (both orders) and every fixed 3-tuple of atoms
    for i in 0..a.len() {
        for j in (i + 1)..a.len() {
            for k in (j + 1)..a.len() {
                container_unions.push(T::Union(vec![a[i].clone(), a[j].clone(), a[k].clone()]));
                container_unions.push(T::Union(vec![a[k].clone(), a[j].clone(), a[i].clone()]));
            }
        }
    }
    for x in &a {
        for y in &a {
            for z in &a {
                container_unions.push(T::TupleOf(vec![x.clone(), y.clone(), z.clone()]));
            }
        }
    }
    let mut all = a.clone();
    all.extend(d1.clone());
    all.extend(container_unions);
    // depth 2: a constructor applied to a depth-1 type (deterministic subsample of d1)
    for (i, x) in d1.iter().enumerate() {
        if i % 5 != 0 {
            continue;
        }
        let atom = &a[i % a.len()];
        match i % 6 {
            0 => all.push(T::List(Some(Box::new(x.clone())))),
            1 => all.push(T::Dict(Some((Box::new(atom.clone()), Box::new(x.clone()))))),
            2 => all.push(T::TupleOf(vec![x.clone(), atom.clone()])),
            3 => all.push(T::Union(vec![x.clone(), atom.clone()])),
            4 => all.push(T::TupleVar(Box::new(x.clone()))),
            _ => all.push(T::Set(Some(Box::new(x.clone())))),
        }
    }
    all
}

/// A module that declares a record and an enum under the same names and with the same shapes as R1 / E1 of the main
/// module: distinct types that display identically.
const TWIN_SRC: &str = "R1 = record(a = int)\nE1 = enum(\"x\", \"y\")\n";

fn twin_module() -> &'static starlark::environment::FrozenModule {
    static M: std::sync::OnceLock<starlark::environment::FrozenModule> = std::sync::OnceLock::new();
    M.get_or_init(|| sl::run_and_freeze("twin.star", TWIN_SRC, &sl::RunCfg::default(), &[]).1.expect("twin module"))
}

const PRELUDE: &str = r#"
load("twin.star", R1twin = "R1", E1twin = "E1")
R1 = record(a = int)
R2 = record(a = int)
E1 = enum("x", "y")
E2 = enum("x", "y")
def afunc(x):
    return x
"#;

/// Evaluates a batch of types against the whole value catalogue. Returns failures.
fn run_batch(ctx: &Ctx, types: &[T], r: &mut CaseResult) {
    let vals = values();
    let mut a = String::from(PRELUDE);
    a.push_str("VS = [\n");
    for (s, _) in &vals {
        a.push_str(&format!("    {s},\n"));
    }
    a.push_str("]\n");
    for (i, t) in types.iter().enumerate() {
        let ts = t.src();
        // Known finding (while open): fixed-arity tuple types cannot be evaluated in value position, so the
        // value-position paths are left out for them (None in the row) and counted as excluded.
        let value_pos = true;
        let _ = (ctx, t.has_fixed_tuple());
        if !value_pos {
            r.excluded_known += 1;
        }
        a.push_str(&format!("def par{i}(x: {ts}):\n    return True\n"));
        a.push_str(&format!("def ret{i}(x) -> {ts}:\n    return x\n"));
        a.push_str(&format!("def ann{i}(x):\n    y: {ts} = x\n    return True\n"));
        if value_pos {
            a.push_str(&format!("T{i} = {ts}\n"));
            a.push_str(&format!("def isin{i}(v):\n    return isinstance(v, {ts})\n"));
            a.push_str(&format!("def ety{i}(v):\n    return eval_type({ts}).matches(v)\n"));
            a.push_str(&format!("def row{i}(vs):\n    return [(isin{i}(v), catch(par{i}, v)[0] == \"ok\", catch(ret{i}, v)[0] == \"ok\", catch(ann{i}, v)[0] == \"ok\", ety{i}(v), isinstance(v, T{i})) for v in vs]\n"));
        } else {
            a.push_str(&format!("T{i} = None\n"));
            a.push_str(&format!("def row{i}(vs):\n    return [(None, catch(par{i}, v)[0] == \"ok\", catch(ret{i}, v)[0] == \"ok\", catch(ann{i}, v)[0] == \"ok\", None, None) for v in vs]\n"));
        }
    }
    a.push_str(&format!("TS = [{}]\n", (0..types.len()).map(|i| format!("T{i}")).collect::<Vec<_>>().join(", ")));
    a.push_str(&format!("ROWS = [{}]\n", (0..types.len()).map(|i| format!("row{i}")).collect::<Vec<_>>().join(", ")));
    a.push_str("M = [row(VS) for row in ROWS]\n");
    let cfg = sl::RunCfg { max_ticks: 100_000_000, ..Default::default() };

    // matrices: name -> rows[type][value] = encoded tuple of booleans
    let mut mats: Vec<(String, Vec<Vec<String>>)> = Vec::new();
    let mut rust: Vec<(String, Vec<Vec<Option<bool>>>)> = Vec::new();
    fn grab(m: &starlark::environment::Module, name: &str) -> Vec<Vec<String>> {
        m.get(name).and_then(ListRef::from_value).map(|rows| rows.iter().map(|row| ListRef::from_value(row).map(|r| r.iter().map(sl::encode).collect()).unwrap_or_default()).collect()).unwrap_or_default()
    }
    fn rust_side<'v>(m: &starlark::environment::Module<'v>, tname: &str, vname: &str) -> Vec<Vec<Option<bool>>> {
        let (Some(ts), Some(vs)) = (m.get(tname).and_then(ListRef::from_value), m.get(vname).and_then(ListRef::from_value)) else { return Vec::new() };
        let vs: Vec<Value> = vs.iter().collect();
        ts.iter()
            .map(|t| {
                if t.is_none() {
                    // placeholder for a type that cannot be written in value position (known finding)
                    return vs.iter().map(|_| None).collect();
                }
                match TypeCompiled::new(t, m.heap()) {
                    Ok(tc) => vs.iter().map(|v| Some(tc.matches(*v))).collect(),
                    Err(_) => vs.iter().map(|_| None).collect(),
                }
            })
            .collect()
    }
    let ast = match sl::parse("a.star", &a, &cfg.dialect) {
        Ok(x) => x,
        Err(e) => {
            r.fail("generator-bug", format!("parse: {e}"));
            return;
        }
    };
    let frozen = starlark::environment::Module::with_temp_heap(|module| {
        {
            let mut twin_map: std::collections::HashMap<&str, &starlark::environment::FrozenModule> = std::collections::HashMap::new();
            twin_map.insert("twin.star", twin_module());
            let loader = starlark::eval::ReturnFileLoader { modules: &twin_map };
            let mut eval = starlark::eval::Evaluator::new(&module);
            eval.set_loader(&loader);
            sl::setup_eval(&mut eval, &cfg);
            if let Err(e) = eval.eval_module(ast, sl::globals()) {
                r.fail("type-module-failed", format!("module failed: {}\ntypes: {}", e, types.iter().map(|t| t.src()).collect::<Vec<_>>().join(" ; ")));
                return None;
            }
        }
        mats.push(("unfrozen".into(), grab(&module, "M")));
        rust.push(("unfrozen TypeCompiled::matches".into(), rust_side(&module, "TS", "VS")));
        module.freeze_named(starlark::values::FrozenHeapName::user("a.star")).ok()
    });
    let Some(frozen) = frozen else { return };
    let mut b = String::from("load(\"a.star\", \"VS\", \"TS\", \"ROWS\", \"R1\", \"R2\", \"E1\", \"E2\", \"afunc\")\nload(\"twin.star\", R1twin = \"R1\", E1twin = \"E1\")\n");
    b.push_str("MF = [row(VS) for row in ROWS]\nVS2 = [\n");
    for (s, _) in &vals {
        b.push_str(&format!("    {s},\n"));
    }
    b.push_str("]\nMF2 = [row(VS2) for row in ROWS]\n");
    let out = sl::run_src_with("b.star", &b, &cfg, &[("a.star", &frozen), ("twin.star", twin_module())], |m, _| {
        mats.push(("frozen types, frozen values".into(), grab(m, "MF")));
        mats.push(("frozen types, fresh values".into(), grab(m, "MF2")));
        rust.push(("frozen TypeCompiled::matches".into(), rust_side(m, "TS", "VS")));
        rust.push(("frozen types, fresh values TypeCompiled::matches".into(), rust_side(m, "TS", "VS2")));
    });
    if let Err(e) = out.result {
        r.fail("type-module-failed", format!("module B failed: {}", e.msg));
        return;
    }
    const PATHS: [&str; 6] = ["isinstance", "parameter annotation", "return annotation", "annotated assignment", "eval_type().matches", "isinstance(v, type value)"];
    for (ti, t) in types.iter().enumerate() {
        for (vi, (vs, vm)) in vals.iter().enumerate() {
            let want = denotes(t, vm);
            let mut answers: Vec<(String, bool)> = Vec::new();
            for (mname, m) in &mats {
                let Some(cell) = m.get(ti).and_then(|row| row.get(vi)) else {
                    r.fail("generator-bug", format!("missing matrix cell {mname}[{ti}][{vi}]"));
                    continue;
                };
                let parts = split_top_level(&format!("[{}]", cell.trim_start_matches('(').trim_end_matches(')').trim_end_matches(',')));
                for (p, name) in parts.iter().zip(PATHS) {
                    if p != "N" {
                        answers.push((format!("{name} [{mname}]"), p == "T"));
                    }
                }
            }
            for (rname, m) in &rust {
                if let Some(Some(b)) = m.get(ti).and_then(|row| row.get(vi)) {
                    answers.push((rname.clone(), *b));
                }
            }
            r.evals += answers.len() as u64;
            if answers.is_empty() {
                continue;
            }
            let first = answers[0].1;
            if let Some((n, b)) = answers.iter().find(|(_, b)| *b != first) {
                r.fail("type-path-disagreement", format!("type {} value {vs}: {} says {first} but {n} says {b}", t.src(), answers[0].0));
            } else if let Some(w) = want {
                if w != first {
                    let m = merged(t);
                    if m != *t && denotes(&m, vm) == Some(first) {
                        r.fail(SIG_UNION_MERGED, format!("type {} value {vs}: every check path answers {first}, the documented meaning is {w}; the answer is the one for {} (list/dict members of a union merged)", t.src(), m.src()));
                    } else {
                        r.fail("type-denotation", format!("type {} value {vs}: every check path answers {first}, the documented meaning is {w}", t.src()));
                    }
                }
            }
            if (t.depth() >= 1 || matches!(t, T::Union(_))) && matches!(vm, V::List(_) | V::Dict(_) | V::Set(_) | V::Tuple(_) | V::Rec(_) | V::EnumV(_)) {
                r.nontrivial.push(fnv(format!("{}|{vs}", t.src()).as_bytes()));
            }
        }
    }
}

fn gen_type(ch: &mut Choices, depth: u32) -> T {
    let a = atoms();
    if depth >= 3 || ch.chance(2, 5) {
        return a[ch.idx(a.len())].clone();
    }
    match ch.below(8) {
        0 => T::List(Some(Box::new(gen_type(ch, depth + 1)))),
        1 => T::Set(Some(Box::new(gen_type(ch, depth + 1)))),
        2 => T::Dict(Some((Box::new(gen_type(ch, depth + 1)), Box::new(gen_type(ch, depth + 1))))),
        3 => {
            let n = 1 + ch.idx(3);
            T::TupleOf((0..n).map(|_| gen_type(ch, depth + 1)).collect())
        }
        4 => T::TupleVar(Box::new(gen_type(ch, depth + 1))),
        5 | 6 => {
            let n = 2 + ch.idx(3);
            let mut ts: Vec<T> = Vec::new();
            for _ in 0..n {
                let t = gen_type(ch, depth + 1);
                if !ts.contains(&t) {
                    ts.push(t);
                }
            }
            if ts.len() < 2 || ts.iter().all(|t| matches!(t, T::TupleOf(_))) { ts.pop().unwrap() } else { T::Union(ts) }
        }
        _ => a[ch.idx(a.len())].clone(),
    }
}

const EXH_MAGIC: u32 = 0xEEEE_EE16;
const SIG_FIXED_TUPLE: &str = "documented-fixed-tuple-syntax";

impl Prop for C16 {
    fn id(&self) -> &'static str {
        "C16"
    }
    fn cases(&self, tier: Tier) -> u64 {
        match tier {
            Tier::Quick => 600,
            Tier::Thorough => 30_000,
        }
    }
    fn choice_len(&self, _tier: Tier) -> (usize, usize) {
        (10, 200)
    }
    fn rule(&self) -> String {
        "Enumerated every run: all type expressions of depth <= 1 over the 17 atoms (Any, Never, None, bool, int, float, str, list, dict, set, tuple, Callable, Iterable, two record types of equal shape, two enum types of equal shape) with list[T], set[T], dict[K,V] (all 289), tuple[T], tuple[T,U] (all 289), tuple[T, ...], unions of two (all ordered pairs) and sampled three-member unions / 3-tuples / depth-2 nestings, each against a 58-value catalogue (every builtin type, empty and heterogeneous containers, nesting to depth 3, record/enum instances of distinct declarations, functions, natives, partials, range, struct, record/enum types). Oracle 1: reference denotation written from docs/types.md (unsettled combinations excluded). Oracle 2: path agreement between isinstance, parameter annotation, return annotation, annotated assignment, eval_type().matches, isinstance with the type as a value, and the host TypeCompiled::matches, unfrozen, frozen types with frozen values, frozen types with fresh values. Random part: depth-3 type expressions. evaluations = individual answers compared. Non-trivial = constructed/union type against a container or record/enum instance; distinct = distinct (type, value).".into()
    }
    fn assumptions(&self) -> Vec<String> {
        vec!["docs/types.md is the reference; not settled there and therefore only checked for path agreement: record/enum types as Callable, range/str/enum types as Iterable".into()]
    }
    fn known_probe(&self, _ctx: &mut Ctx, sig: &str) -> Option<(bool, String)> {
        if sig == SIG_FIXED_TUPLE {
            let out = sl::run_src("p.star", "def g(x: tuple[int, bool, str]):\n    return 1\nemit(g((1, True, \"a\")))\n", &sl::RunCfg::default(), &[]);
            return Some((out.result.is_err() || out.tx != vec!["1".to_owned()], format!("def g(x: tuple[int, bool, str]) -> {:?}", out.result.map_err(|e| e.msg))));
        }
        None
    }
    fn has_exhaustive(&self) -> bool {
        true
    }
    fn exhaustive(&self, ctx: &mut Ctx, sink: &mut dyn FnMut(CaseResult)) {
        let all = types_depth2();
        for (bi, chunk) in all.chunks(12).enumerate() {
            if bi % ctx.workers != ctx.worker {
                continue;
            }
            let mut r = CaseResult::new(format!("[enumerated types x value catalogue] {}", chunk.iter().map(|t| t.src()).collect::<Vec<_>>().join(" ; ")));
            r.evals = 0;
            r.replay = vec![EXH_MAGIC, bi as u32];
            run_batch(ctx, chunk, &mut r);
            sink(r);
        }
    }
    fn run(&self, ctx: &mut Ctx, ch: &mut Choices) -> CaseResult {
        let first = ch.raw();
        if first == EXH_MAGIC {
            let all = types_depth2();
            let chunks: Vec<&[T]> = all.chunks(12).collect();
            let bi = ch.raw() as usize % chunks.len();
            let mut r = CaseResult::new(format!("[enumerated types] {}", chunks[bi].iter().map(|t| t.src()).collect::<Vec<_>>().join(" ; ")));
            r.evals = 0;
            run_batch(ctx, chunks[bi], &mut r);
            return r;
        }
        let n = 2 + ch.idx(6);
        let types: Vec<T> = (0..n).map(|_| gen_type(ch, 0)).collect();
        let mut r = CaseResult::new(format!("types: {}", types.iter().map(|t| t.src()).collect::<Vec<_>>().join(" ; ")));
        r.evals = 0;
        if types.iter().any(|t| t.depth() >= 3) {
            r.label("depth3");
        }
        run_batch(ctx, &types, &mut r);
        r
    }
}
