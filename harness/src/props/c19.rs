//! C19 — IDE answers are well formed and name resolution matches what the program does.

use std::collections::HashMap;
use std::path::Path;
use std::path::PathBuf;
use std::sync::Arc;
use std::sync::RwLock;
use std::time::Duration;

use lsp_server::Connection;
use lsp_server::Message;
use lsp_server::Notification;
use lsp_server::Request;
use lsp_server::RequestId;
use serde_json::Value as J;
use serde_json::json;
use starlark::analysis::AstModuleLint;
use starlark::docs::DocModule;
use starlark::errors::EvalMessage;
use starlark::syntax::AstModule;
use starlark::syntax::Dialect;
use starlark_lsp::error::eval_message_to_lsp_diagnostic;
use starlark_lsp::server::LspContext;
use starlark_lsp::server::LspEvalResult;
use starlark_lsp::server::LspUri;
use starlark_lsp::server::StringLiteralResult;
use starlark_lsp::server::server_with_connection;

use crate::engine::*;
use crate::sl;

pub struct C19;

// ---- LSP context backed by an in-memory file map ---------------------------------------------------------

struct MemCtx {
    files: Arc<RwLock<HashMap<PathBuf, String>>>,
}

impl LspContext for MemCtx {
    fn parse_file_with_contents(&self, uri: &LspUri, content: String) -> LspEvalResult {
        match uri {
            LspUri::File(path) | LspUri::Starlark(path) => match AstModule::parse(&path.to_string_lossy(), content, &Dialect::AllOptionsInternal) {
                Ok(ast) => {
                    let diagnostics = ast.lint(None).into_iter().map(|l| eval_message_to_lsp_diagnostic(EvalMessage::from(l))).collect();
                    LspEvalResult { diagnostics, ast: Some(ast) }
                }
                Err(e) => LspEvalResult { diagnostics: vec![eval_message_to_lsp_diagnostic(EvalMessage::from_error(path, &e))], ast: None },
            },
            _ => LspEvalResult::default(),
        }
    }
    fn resolve_load(&self, path: &str, current_file: &LspUri, _root: Option<&Path>) -> Result<LspUri, String> {
        match current_file {
            LspUri::File(cur) => {
                let p = PathBuf::from(path);
                let abs = if p.is_absolute() { p } else { cur.parent().map(|d| d.join(&p)).ok_or("no parent")? };
                Ok(LspUri::File(abs))
            }
            _ => Err("wrong scheme".to_owned()),
        }
    }
    fn render_as_load(&self, target: &LspUri, _current: &LspUri, _root: Option<&Path>) -> Result<String, String> {
        match target {
            LspUri::File(p) => Ok(p.file_name().map(|f| f.to_string_lossy().into_owned()).unwrap_or_default()),
            _ => Err("wrong scheme".to_owned()),
        }
    }
    fn resolve_string_literal(&self, _lit: &str, _cur: &LspUri, _root: Option<&Path>) -> Result<Option<StringLiteralResult>, String> {
        Ok(None)
    }
    fn get_load_contents(&self, uri: &LspUri) -> Result<Option<String>, String> {
        match uri {
            LspUri::File(p) => Ok(self.files.read().unwrap().get(p).cloned()),
            _ => Ok(None),
        }
    }
    fn get_environment(&self, _uri: &LspUri) -> DocModule {
        DocModule::default()
    }
    fn get_uri_for_global_symbol(&self, _cur: &LspUri, _symbol: &str) -> Result<Option<LspUri>, String> {
        Ok(None)
    }
}

struct Client {
    conn: Connection,
    next_id: i32,
    diagnostics: Vec<J>,
    files: Arc<RwLock<HashMap<PathBuf, String>>>,
    server: Option<std::thread::JoinHandle<()>>,
    version: i32,
}

const TIMEOUT: Duration = Duration::from_secs(20);

impl Client {
    fn start() -> Result<Client, String> {
        let (server_conn, client_conn) = Connection::memory();
        let files: Arc<RwLock<HashMap<PathBuf, String>>> = Default::default();
        let ctx = MemCtx { files: files.clone() };
        let server = std::thread::spawn(move || {
            let _ = server_with_connection(server_conn, ctx);
        });
        let mut c = Client { conn: client_conn, next_id: 0, diagnostics: Vec::new(), files, server: Some(server), version: 0 };
        let init = json!({"processId": null, "rootUri": null, "capabilities": {"textDocument": {"definition": {"dynamicRegistration": true, "linkSupport": true}}}});
        c.request("initialize", init)?;
        c.notify("initialized", json!({}));
        Ok(c)
    }
    fn notify(&mut self, method: &str, params: J) {
        let _ = self.conn.sender.send(Message::Notification(Notification { method: method.to_owned(), params }));
    }
    /// Sends a request and waits for its response (collecting notifications on the way).
    fn request(&mut self, method: &str, params: J) -> Result<J, String> {
        self.next_id += 1;
        let id = RequestId::from(self.next_id);
        self.conn.sender.send(Message::Request(Request { id: id.clone(), method: method.to_owned(), params })).map_err(|e| format!("send failed: {e}"))?;
        loop {
            match self.conn.receiver.recv_timeout(TIMEOUT) {
                Ok(Message::Response(r)) => {
                    if r.id == id {
                        return Ok(json!({"result": r.result, "error": r.error.map(|e| json!({"code": e.code, "message": e.message}))}));
                    }
                }
                Ok(Message::Notification(n)) => {
                    if n.method == "textDocument/publishDiagnostics" {
                        self.diagnostics.push(n.params);
                    }
                }
                Ok(Message::Request(_)) => {}
                Err(e) => return Err(format!("no response to `{method}` within {TIMEOUT:?}: {e}")),
            }
        }
    }
    fn uri(name: &str) -> String {
        format!("file:///ws/{name}")
    }
    fn open(&mut self, name: &str, text: &str) {
        self.files.write().unwrap().insert(PathBuf::from(format!("/ws/{name}")), text.to_owned());
        self.version += 1;
        let v = self.version;
        self.notify("textDocument/didOpen", json!({"textDocument": {"uri": Self::uri(name), "languageId": "starlark", "version": v, "text": text}}));
    }
    fn change(&mut self, name: &str, text: &str) {
        self.files.write().unwrap().insert(PathBuf::from(format!("/ws/{name}")), text.to_owned());
        self.version += 1;
        let v = self.version;
        self.notify("textDocument/didChange", json!({"textDocument": {"uri": Self::uri(name), "version": v}, "contentChanges": [{"text": text}]}));
    }
    fn close(&mut self, name: &str) {
        self.notify("textDocument/didClose", json!({"textDocument": {"uri": Self::uri(name)}}));
    }
    fn definition(&mut self, name: &str, line: u32, character: u32) -> Result<J, String> {
        self.request("textDocument/definition", json!({"textDocument": {"uri": Self::uri(name)}, "position": {"line": line, "character": character}}))
    }
    fn completion(&mut self, name: &str, line: u32, character: u32) -> Result<J, String> {
        self.request("textDocument/completion", json!({"textDocument": {"uri": Self::uri(name)}, "position": {"line": line, "character": character}}))
    }
    fn hover(&mut self, name: &str, line: u32, character: u32) -> Result<J, String> {
        self.request("textDocument/hover", json!({"textDocument": {"uri": Self::uri(name)}, "position": {"line": line, "character": character}}))
    }
    fn shutdown(mut self) -> bool {
        let ok = self.request("shutdown", J::Null).is_ok();
        self.notify("exit", J::Null);
        if let Some(h) = self.server.take() {
            // the server thread must end after exit
            let start = std::time::Instant::now();
            while !h.is_finished() && start.elapsed() < Duration::from_secs(10) {
                std::thread::sleep(Duration::from_millis(2));
            }
            if h.is_finished() {
                return ok && h.join().is_ok();
            }
            return false;
        }
        ok
    }
}

// ---- document generator -------------------------------------------------------------------------------

#[derive(Clone, Debug)]
struct Binding {
    name: String,
    scope: u32,
    line: usize, // 0-based
    byte_col: usize,
    tag: String,
    file: usize,
}

#[derive(Clone, Debug)]
struct UseSite {
    key: u32,
    name: String,
    line: usize,
    byte_col: usize,
}

struct Doc {
    lines: Vec<String>,
    bindings: Vec<Binding>,
    uses: Vec<UseSite>,
    crlf: bool,
    /// Lines of the library file the document loads from (empty = no load statement).
    lib_lines: Vec<String>,
    /// (local name in the document, exported name in lib.star, line in lib.star, byte column there, tag)
    loaded: Vec<(String, String, usize, usize, String)>,
}

const NAMES: &[&str] = &["a", "b", "c"];
const DECOR: &[&str] = &["\"é\"", "\"名前\"", "\"😀\"", "\"a😀b名\"", "\"ascii\"", "\"𝒳y\""];

struct DG<'a, 'c> {
    ch: &'a mut Choices<'c>,
    doc: Doc,
    next_scope: u32,
    next_key: u32,
    next_tag: u32,
}

impl<'a, 'c> DG<'a, 'c> {
    fn tag(&mut self, name: &str, scope: u32) -> String {
        self.next_tag += 1;
        format!("{name}@s{scope}#{}", self.next_tag)
    }
    /// Optional non-ASCII decoration placed BEFORE the interesting identifier on the same line.
    fn decor(&mut self) -> String {
        if self.ch.chance(1, 2) { format!("_d = {}; ", self.ch.pick(DECOR)) } else { String::new() }
    }
    fn trailing(&mut self) -> String {
        if self.ch.chance(1, 3) { format!("  # {}", self.ch.pick_s(&["comment é", "名 😀", "plain"])) } else { String::new() }
    }
    fn push_line(&mut self, s: String) -> usize {
        self.doc.lines.push(s);
        self.doc.lines.len() - 1
    }
    /// `name = "tag"` binding statement.
    fn bind(&mut self, indent: usize, name: &str, scope: u32) {
        let tag = self.tag(name, scope);
        let pre = format!("{}{}", "    ".repeat(indent), self.decor());
        let col = pre.len();
        let t = self.trailing();
        let line = self.push_line(format!("{pre}{name} = \"{tag}\"{t}"));
        self.doc.bindings.push(Binding { name: name.to_owned(), scope, line, byte_col: col, tag, file: 0 });
    }
    /// `probe(k, name)` use statement.
    fn use_(&mut self, indent: usize, name: &str) {
        self.next_key += 1;
        let k = self.next_key;
        let pre = format!("{}{}_u = probe({k}, ", "    ".repeat(indent), self.decor());
        let col = pre.len();
        let t = self.trailing();
        let line = self.push_line(format!("{pre}{name}){t}"));
        self.doc.uses.push(UseSite { key: k, name: name.to_owned(), line, byte_col: col });
    }
    fn body(&mut self, indent: usize, scope: u32, depth: u32, visible: &mut Vec<String>) {
        let n = 2 + self.ch.idx(4);
        for _ in 0..n {
            match self.ch.weighted(&[5, 6, if depth < 2 { 3 } else { 0 }, 2, 2, 2]) {
                0 => {
                    let name = *self.ch.pick(NAMES);
                    self.bind(indent, name, scope);
                    if !visible.contains(&name.to_owned()) {
                        visible.push(name.to_owned());
                    }
                }
                1 => {
                    if !visible.is_empty() {
                        let name = visible[self.ch.idx(visible.len())].clone();
                        self.use_(indent, &name);
                    }
                }
                2 => self.def(indent, depth, visible),
                3 => {
                    // comprehension with its own variable scope
                    if !visible.is_empty() || true {
                        self.next_scope += 1;
                        let sc = self.next_scope;
                        let name = *self.ch.pick(NAMES);
                        let tag = self.tag(name, sc);
                        self.next_key += 1;
                        let k = self.next_key;
                        let pre = format!("{}{}_c = [probe({k}, ", "    ".repeat(indent), self.decor());
                        let use_col = pre.len();
                        let mid = format!("{pre}{name}) for ");
                        let bind_col = mid.len();
                        // the first iterable is evaluated in the ENCLOSING scope: it may read an outer binding of any
                        // visible name, including the very name the comprehension rebinds
                        let mut text = format!("{mid}{name} in [");
                        let mut extra_uses: Vec<(u32, String, usize)> = Vec::new();
                        if !visible.is_empty() && self.ch.chance(2, 3) {
                            let outer = if visible.contains(&name.to_owned()) && self.ch.bool() { name.to_owned() } else { visible[self.ch.idx(visible.len())].clone() };
                            self.next_key += 1;
                            let k2 = self.next_key;
                            text.push_str(&format!("probe({k2}, "));
                            extra_uses.push((k2, outer.clone(), text.len()));
                            text.push_str(&format!("{outer}), "));
                        }
                        text.push_str(&format!("\"{tag}\"]"));
                        // optional second clause: its iterable is evaluated in the comprehension's scope
                        if self.ch.chance(1, 3) {
                            self.next_key += 1;
                            let k3 = self.next_key;
                            let other = *self.ch.pick(NAMES);
                            if other != name {
                                let tag2 = self.tag(other, sc);
                                text.push_str(" for ");
                                let b2 = text.len();
                                text.push_str(&format!("{other} in [\"{tag2}\", probe({k3}, "));
                                extra_uses.push((k3, name.to_owned(), text.len()));
                                text.push_str(&format!("{name})]"));
                                let line_idx = self.doc.lines.len();
                                self.doc.bindings.push(Binding { name: other.to_owned(), scope: sc, line: line_idx, byte_col: b2, tag: tag2, file: 0 });
                            }
                        }
                        text.push(']');
                        let line = self.push_line(text);
                        self.doc.bindings.push(Binding { name: name.to_owned(), scope: sc, line, byte_col: bind_col, tag, file: 0 });
                        self.doc.uses.push(UseSite { key: k, name: name.to_owned(), line, byte_col: use_col });
                        for (k2, n2, col) in extra_uses {
                            self.doc.uses.push(UseSite { key: k2, name: n2, line, byte_col: col });
                        }
                    }
                }
                4 => {
                    // lambda parameter with default, called immediately
                    self.next_scope += 1;
                    let sc = self.next_scope;
                    let name = *self.ch.pick(NAMES);
                    let tag = self.tag(name, sc);
                    self.next_key += 1;
                    let k = self.next_key;
                    let pre = format!("{}{}_l = (lambda ", "    ".repeat(indent), self.decor());
                    let bind_col = pre.len();
                    let mut mid = format!("{pre}{name} = ");
                    let mut default_use: Option<(u32, String, usize)> = None;
                    if !visible.is_empty() && self.ch.chance(1, 3) {
                        // default of a lambda parameter: evaluated in the enclosing scope
                        let outer = if visible.contains(&name.to_owned()) && self.ch.bool() { name.to_owned() } else { visible[self.ch.idx(visible.len())].clone() };
                        self.next_key += 1;
                        let k0 = self.next_key;
                        mid.push_str(&format!("[probe({k0}, "));
                        default_use = Some((k0, outer.clone(), mid.len()));
                        mid.push_str(&format!("{outer}), \"{tag}\"][1]"));
                    } else {
                        mid.push_str(&format!("\"{tag}\""));
                    }
                    mid.push_str(&format!(": probe({k}, "));
                    let use_col = mid.len();
                    let line = self.push_line(format!("{mid}{name}))()"));
                    self.doc.bindings.push(Binding { name: name.to_owned(), scope: sc, line, byte_col: bind_col, tag, file: 0 });
                    self.doc.uses.push(UseSite { key: k, name: name.to_owned(), line, byte_col: use_col });
                    if let Some((k0, n0, c0)) = default_use {
                        self.doc.uses.push(UseSite { key: k0, name: n0, line, byte_col: c0 });
                    }
                }
                _ => {
                    // for loop variable (belongs to the enclosing function/module scope)
                    let name = *self.ch.pick(NAMES);
                    let tag = self.tag(name, scope);
                    let pre = format!("{}for ", "    ".repeat(indent));
                    let col = pre.len();
                    let line = self.push_line(format!("{pre}{name} in [\"{tag}\"]:"));
                    self.doc.bindings.push(Binding { name: name.to_owned(), scope, line, byte_col: col, tag, file: 0 });
                    if !visible.contains(&name.to_owned()) {
                        visible.push(name.to_owned());
                    }
                    self.use_(indent + 1, name);
                }
            }
        }
    }
    fn def(&mut self, indent: usize, depth: u32, outer_visible: &mut Vec<String>) {
        self.next_scope += 1;
        let sc = self.next_scope;
        let fname = format!("f{sc}");
        let pad = "    ".repeat(indent);
        // parameters with tagged defaults (shadow outer names)
        let np = self.ch.idx(3);
        let mut sig = format!("{pad}def {fname}(");
        let mut params: Vec<String> = Vec::new();
        let line_idx = self.doc.lines.len();
        for i in 0..np {
            let name = NAMES[(self.ch.idx(NAMES.len()) + i) % NAMES.len()];
            if params.contains(&name.to_owned()) {
                continue;
            }
            if !params.is_empty() {
                sig.push_str(", ");
            }
            let tag = self.tag(name, sc);
            self.doc.bindings.push(Binding { name: name.to_owned(), scope: sc, line: line_idx, byte_col: sig.len(), tag: tag.clone(), file: 0 });
            if !outer_visible.is_empty() && self.ch.chance(1, 3) {
                // the default expression is evaluated in the ENCLOSING scope: it may read an outer binding, also one whose
                // name is a parameter of this very def; the parameter still gets its own tagged value
                let outer = if outer_visible.contains(&name.to_owned()) && self.ch.bool() { name.to_owned() } else { outer_visible[self.ch.idx(outer_visible.len())].clone() };
                self.next_key += 1;
                let k = self.next_key;
                sig.push_str(&format!("{name} = [probe({k}, "));
                self.doc.uses.push(UseSite { key: k, name: outer.clone(), line: line_idx, byte_col: sig.len() });
                sig.push_str(&format!("{outer}), \"{tag}\"][1]"));
            } else {
                sig.push_str(&format!("{name} = \"{tag}\""));
            }
            params.push(name.to_owned());
        }
        sig.push_str("):");
        self.push_line(sig);
        if self.ch.chance(1, 2) {
            let d = *self.ch.pick(&["Doc é.", "名前 😀 doc.", "plain doc"]);
            self.push_line(format!("{pad}    \"\"\"{d}\"\"\""));
        }
        // names visible inside: parameters, then whatever the outer scopes define (read through closures)
        let mut visible = params.clone();
        for v in outer_visible.iter() {
            if !visible.contains(v) {
                visible.push(v.clone());
            }
        }
        // a name assigned anywhere in the body is local for the whole body: to keep reads well defined, local
        // bindings come first for names that will be rebound here
        let nlocal = self.ch.idx(3);
        for _ in 0..nlocal {
            let name = *self.ch.pick(NAMES);
            self.bind(indent + 1, name, sc);
            if !visible.contains(&name.to_owned()) {
                visible.push(name.to_owned());
            }
        }
        let locals_now: Vec<String> = self.doc.bindings.iter().filter(|b| b.scope == sc).map(|b| b.name.clone()).collect();
        // body: uses, nested scopes; further bindings only of names that are already local here
        let n = 1 + self.ch.idx(4);
        for _ in 0..n {
            match self.ch.weighted(&[6, 2, if depth < 2 { 2 } else { 0 }]) {
                0 => {
                    if !visible.is_empty() {
                        let name = visible[self.ch.idx(visible.len())].clone();
                        self.use_(indent + 1, &name);
                    }
                }
                1 => {
                    if !locals_now.is_empty() {
                        let name = locals_now[self.ch.idx(locals_now.len())].clone();
                        self.bind(indent + 1, &name, sc);
                    }
                }
                _ => {
                    let mut v2 = visible.clone();
                    self.def(indent + 1, depth + 1, &mut v2);
                }
            }
        }
        self.push_line(format!("{pad}    return None"));
        self.push_line(format!("{pad}{fname}()"));
    }
}

fn gen_doc(ch: &mut Choices) -> Doc {
    let crlf = ch.chance(1, 4);
    let mut g = DG { ch, doc: Doc { lines: Vec::new(), bindings: Vec::new(), uses: Vec::new(), crlf, lib_lines: Vec::new(), loaded: Vec::new() }, next_scope: 0, next_key: 0, next_tag: 0 };
    let mut visible: Vec<String> = Vec::new();
    // optional load statement: names la/lb come from lib.star (exported there as ea/eb, possibly after non-ASCII text)
    if g.ch.chance(1, 2) {
        let mut args = Vec::new();
        for (local, exported) in [("la", "ea"), ("lb", "eb")] {
            if g.ch.chance(2, 3) {
                let pre = g.decor();
                let tag = format!("{exported}@slib#{}", g.doc.lib_lines.len());
                if g.ch.chance(1, 3) {
                    g.doc.lib_lines.push(format!("# {}", g.ch.pick_s(&["é", "😀 名", "lib"])));
                }
                g.doc.lib_lines.push(format!("{pre}{exported} = \"{tag}\""));
                let aliased = g.ch.bool();
                let local_name = if aliased { local } else { exported };
                args.push(if aliased { format!("{local} = \"{exported}\"") } else { format!("\"{exported}\"") });
                g.doc.loaded.push((local_name.to_owned(), exported.to_owned(), g.doc.lib_lines.len() - 1, pre.len(), tag));
                visible.push(local_name.to_owned());
            }
        }
        if !args.is_empty() {
            let t = g.trailing();
            g.push_line(format!("load(\"lib.star\", {}){t}", args.join(", ")));
        }
    }
    // module level binds every name first so that closures always find something
    for n in NAMES {
        if g.ch.chance(2, 3) {
            g.bind(0, n, 0);
            visible.push((*n).to_owned());
        }
    }
    g.body(0, 0, 0, &mut visible);
    g.doc
}

impl Doc {
    fn text(&self) -> String {
        let nl = if self.crlf { "\r\n" } else { "\n" };
        self.lines.iter().map(|l| format!("{l}{nl}")).collect()
    }
    fn lib_text(&self) -> String {
        let nl = if self.crlf { "\r\n" } else { "\n" };
        self.lib_lines.iter().map(|l| format!("{l}{nl}")).collect()
    }
}

/// Every `{start: {line, character}, end: {..}}` object inside a JSON answer.
fn collect_ranges(j: &J, out: &mut Vec<J>) {
    match j {
        J::Object(m) => {
            if m.get("start").map(|s| s.get("line").is_some()).unwrap_or(false) && m.get("end").map(|s| s.get("line").is_some()).unwrap_or(false) {
                out.push(j.clone());
            }
            for v in m.values() {
                collect_ranges(v, out);
            }
        }
        J::Array(a) => {
            for v in a {
                collect_ranges(v, out);
            }
        }
        _ => {}
    }
}

/// Independent line/character computation (lines end at \n; columns count characters).
fn line_col(text: &str, off: usize) -> (usize, usize) {
    let line = text[..off].matches('\n').count();
    let line_start = text[..off].rfind('\n').map(|i| i + 1).unwrap_or(0);
    (line, text[line_start..off].chars().count())
}

/// Property clause 4 over a whole tree: for every node span of the parsed document, CodeMap::resolve_span must equal
/// the independent computation; and for a run-time error (with its call stack) raised on lines holding non-ASCII text.
fn check_tree_and_runtime_spans(text: &str, r: &mut CaseResult) {
    let Ok(ast) = AstModule::parse("doc.star", text.to_owned(), &Dialect::AllOptionsInternal) else { return };
    let cm = {
        use starlark_syntax::syntax::module::AstModuleFields;
        ast.codemap().clone()
    };
    let mut w = crate::astx::Walk::new(text, true, false);
    {
        use starlark_syntax::syntax::module::AstModuleFields;
        w.module(ast.statement());
    }
    let out = std::mem::take(&mut w.out);
    let mut seen = std::collections::HashSet::new();
    for (i, _) in out.match_indices('@') {
        let rest = &out[i + 1..];
        let end = rest.find(|c: char| !(c.is_ascii_digit() || c == '-')).unwrap_or(rest.len());
        let Some((b, e)) = rest[..end].split_once('-') else { continue };
        let (Ok(b), Ok(e)) = (b.parse::<u32>(), e.parse::<u32>()) else { continue };
        if !seen.insert((b, e)) || e as usize > text.len() || !text.is_char_boundary(b as usize) || !text.is_char_boundary(e as usize) || b > e {
            continue;
        }
        let sp = starlark::codemap::Span::new(starlark::codemap::Pos::new(b), starlark::codemap::Pos::new(e));
        let rs = cm.resolve_span(sp);
        r.evals += 1;
        let want = (line_col(text, b as usize), line_col(text, e as usize));
        let got = ((rs.begin.line, rs.begin.column), (rs.end.line, rs.end.column));
        if want != got {
            r.fail("resolved-span-mismatch", format!("node span {b}..{e} ({:?}): CodeMap::resolve_span says {got:?}, the text says {want:?}\n{text}", truncate(&text[b as usize..e as usize], 40)));
            return;
        }
        let fs = cm.file_span(sp);
        let l = fs.resolve_span();
        if ((l.begin.line, l.begin.column), (l.end.line, l.end.column)) != want {
            r.fail("resolved-span-mismatch", format!("node span {b}..{e}: FileSpan::resolve_span disagrees with the text\n{text}"));
            return;
        }
        // source_line / source_span consistency
        if want.0.0 == want.1.0 && cm.source_span(sp) != &text[b as usize..e as usize] {
            r.fail("resolved-span-mismatch", format!("node span {b}..{e}: source_span returns different text"));
            return;
        }
    }
}

fn check_runtime_error_positions(text: &str, lib: Option<&starlark::environment::FrozenModule>, r: &mut CaseResult) {
    // a failing call chain whose frames sit on lines that hold non-ASCII text before the call
    let nl = if text.contains("\r\n") { "\r\n" } else { "\n" };
    let tail = format!("def _boom(x):{nl}    _d = \"é😀\"; return [][x]{nl}def _mid(x):{nl}    _d = \"名\"; return _boom(x){nl}_d = \"😀é\"; _z = _mid(3){nl}");
    let full = format!("{text}{tail}");
    let ast = match AstModule::parse("doc.star", full.clone(), &Dialect::AllOptionsInternal) {
        Ok(a) => a,
        Err(_) => return,
    };
    starlark::environment::Module::with_temp_heap(|module| {
        let mut map: HashMap<&str, &starlark::environment::FrozenModule> = HashMap::new();
        if let Some(l) = lib {
            map.insert("lib.star", l);
        }
        let loader = starlark::eval::ReturnFileLoader { modules: &map };
        let mut eval = starlark::eval::Evaluator::new(&module);
        eval.set_loader(&loader);
        let Err(e) = eval.eval_module(ast, sl::globals()) else {
            r.fail("generator-bug", "runtime-error tail did not fail".into());
            return;
        };
        let mut spans: Vec<(String, starlark::codemap::FileSpan)> = Vec::new();
        if let Some(s) = e.span() {
            spans.push(("error span".into(), s.clone()));
        }
        { let cs = e.call_stack();
            for f in &cs.frames {
                if let Some(l) = &f.location {
                    spans.push((format!("frame {}", f.name), l.clone()));
                }
            }
        }
        if spans.len() < 3 {
            r.fail("error-position-missing", format!("expected an error span and two located frames, got {}", spans.len()));
        }
        for (what, fs) in spans {
            let (b, en) = (fs.span.begin().get() as usize, fs.span.end().get() as usize);
            if fs.filename() != "doc.star" || en > full.len() || !full.is_char_boundary(b) || !full.is_char_boundary(en) {
                r.fail("error-position-invalid", format!("{what}: span {b}..{en} of {} is not a valid range of the evaluated file", fs.filename()));
                continue;
            }
            let rs = fs.resolve_span();
            r.evals += 1;
            let want = (line_col(&full, b), line_col(&full, en));
            let got = ((rs.begin.line, rs.begin.column), (rs.end.line, rs.end.column));
            if want != got {
                r.fail("resolved-span-mismatch", format!("{what} at bytes {b}..{en}: resolve_span says {got:?}, the text says {want:?}\n{full}"));
            }
            // the rendered location `file:line:col` (1-based) must agree as well
            let shown = format!("{fs}");
            let expect_prefix = format!("doc.star:{}:{}", want.0.0 + 1, want.0.1 + 1);
            if !shown.starts_with(&expect_prefix) {
                r.fail("resolved-span-mismatch", format!("{what}: rendered location {shown:?} does not start with {expect_prefix:?}"));
            }
        }
    });
}

fn utf16_col(line: &str, byte_col: usize) -> u32 {
    line[..byte_col.min(line.len())].encode_utf16().count() as u32
}

/// Position validity under the protocol's UTF-16 convention.
fn check_range(text: &str, range: &J, what: &str, probs: &mut Vec<String>) {
    let lines: Vec<&str> = text.split('\n').map(|l| l.strip_suffix('\r').unwrap_or(l)).collect();
    let pos = |p: &J| (p["line"].as_u64().unwrap_or(u64::MAX), p["character"].as_u64().unwrap_or(u64::MAX));
    let (sl_, sc) = pos(&range["start"]);
    let (el, ec) = pos(&range["end"]);
    for (l, c, which) in [(sl_, sc, "start"), (el, ec, "end")] {
        if l as usize >= lines.len() {
            probs.push(format!("{what}: {which} line {l} beyond the document ({} lines)", lines.len()));
        } else {
            let len16 = lines[l as usize].encode_utf16().count() as u64;
            if c > len16 {
                probs.push(format!("{what}: {which} character {c} beyond line {l} (UTF-16 length {len16}) {:?}", truncate(lines[l as usize], 80)));
            }
        }
    }
    if (sl_, sc) > (el, ec) {
        probs.push(format!("{what}: start {sl_}:{sc} after end {el}:{ec}"));
    }
}

fn range_text(text: &str, range: &J) -> Option<String> {
    let lines: Vec<&str> = text.split('\n').map(|l| l.strip_suffix('\r').unwrap_or(l)).collect();
    let l = range["start"]["line"].as_u64()? as usize;
    if range["end"]["line"].as_u64()? as usize != l {
        return None;
    }
    let (s, e) = (range["start"]["character"].as_u64()? as usize, range["end"]["character"].as_u64()? as usize);
    let u: Vec<u16> = lines.get(l)?.encode_utf16().collect();
    String::from_utf16(u.get(s..e)?).ok()
}

/// Independent line/character computation for a byte span (property clause 4).
fn check_resolved_spans(text: &str, r: &mut CaseResult) {
    let Err(e) = AstModule::parse("span.star", text.to_owned(), &Dialect::AllOptionsInternal) else { return };
    let Some(fs) = e.span() else { return };
    let rs = fs.resolve_span();
    for (off, got_line, got_col, which) in [(fs.span.begin().get() as usize, rs.begin.line, rs.begin.column, "begin"), (fs.span.end().get() as usize, rs.end.line, rs.end.column, "end")] {
        if off > text.len() || !text.is_char_boundary(off) {
            continue; // C05's business
        }
        let line = text[..off].matches('\n').count();
        let line_start = text[..off].rfind('\n').map(|i| i + 1).unwrap_or(0);
        let col = text[line_start..off].chars().count();
        r.evals += 1;
        if got_line != line || got_col != col {
            r.fail("resolved-span-mismatch", format!("error span {which} at byte {off}: resolve_span says line {got_line} column {got_col}, the text says line {line} character {col}\n{text}"));
        }
    }
}

impl Prop for C19 {
    fn id(&self) -> &'static str {
        "C19"
    }
    fn cases(&self, tier: Tier) -> u64 {
        match tier {
            Tier::Quick => 12_000,
            Tier::Thorough => 60_000,
        }
    }
    fn choice_len(&self, _tier: Tier) -> (usize, usize) {
        (20, 400)
    }
    fn workers(&self) -> usize {
        8
    }
    fn rule(&self) -> String {
        "Case = generated document: three names rebound at module level, as parameters with defaults, as locals, as for-loop, comprehension and lambda variables in nested scopes (deliberate shadowing), each binding initialised with a scope-tagged string, each use wrapped as probe(k, name); lines optionally start with a statement holding non-ASCII BMP / astral string literals BEFORE the identifier and end with non-ASCII comments; LF or CRLF. History on an in-memory language server (Connection::memory, LspContext over a file map): initialize, didOpen, definition at every use site (cursor in UTF-16 columns) and at a grid of other positions (line ends, past the end, inside surrogate pairs, beyond the last line), didChange to a second generated document followed by requests, a change to unparsable text followed by requests, didClose followed by a request, shutdown/exit. Oracle: (1) every request is answered and the server thread ends after exit; (2) every range in definition answers and in publishDiagnostics is valid for its document under UTF-16; (3) the document is evaluated: for use k the probe records which scope's tagged value the program actually read; definition at that use must return a range whose text is the name and which is a binding site of that name in that scope; (4) for parse errors, resolve_span() line/character equal an independent count over the text. evaluations = requests + span checks. Non-trivial = a use whose name has bindings in >= 2 scopes, or whose line has non-ASCII text before the identifier; distinct = distinct (document, use).".into()
    }
    fn assumptions(&self) -> Vec<String> {
        vec!["goto-definition on a name bound several times in one scope may return any binding of that name in that scope".into(), "a request unanswered for 20 s is reported as inconclusive (exit 2), not as a violation".into()]
    }
    fn floors(&self) -> Vec<(&'static str, f64)> {
        vec![("shadowed_use", 0.4), ("non_ascii_before_ident", 0.3)]
    }
    fn run(&self, _ctx: &mut Ctx, ch: &mut Choices) -> CaseResult {
        let doc = gen_doc(ch);
        let text = doc.text();
        let doc2 = gen_doc(ch);
        let text2 = doc2.text();
        let mut r = CaseResult::new(text.clone());
        r.evals = 0;
        // ground truth: which binding does the running program read at each use?
        let lib_text = doc.lib_text();
        let lib_frozen = if doc.loaded.is_empty() { None } else { sl::run_and_freeze("lib.star", &lib_text, &sl::RunCfg::default(), &[]).1 };
        if !doc.loaded.is_empty() && lib_frozen.is_none() {
            r.fail("generator-bug", format!("library does not evaluate:\n{lib_text}"));
            return r;
        }
        let loads: Vec<(&str, &starlark::environment::FrozenModule)> = lib_frozen.iter().map(|f| ("lib.star", f)).collect();
        let out = sl::run_src("doc.star", &text, &sl::RunCfg::default(), &loads);
        if let Err(e) = &out.result {
            r.fail("generator-bug", format!("document does not evaluate: {}\n{text}", e.msg));
            return r;
        }
        let mut read: HashMap<u32, String> = HashMap::new();
        for t in &out.tx {
            if let Some(rest) = t.strip_prefix("P ") {
                let mut it = rest.splitn(2, ' ');
                let k: u32 = it.next().unwrap_or("0").parse().unwrap_or(0);
                let v = it.next().unwrap_or("").trim_matches('"').to_owned();
                read.insert(k, v);
            }
        }
        let mut c = match Client::start() {
            Ok(c) => c,
            Err(e) => {
                println!("INCONCLUSIVE lsp start: {e}");
                return r;
            }
        };
        if !doc.loaded.is_empty() {
            // the library is either an open document or only known to the context ("on disk")
            if ch.bool() {
                c.open("lib.star", &lib_text);
            } else {
                c.files.write().unwrap().insert(PathBuf::from("/ws/lib.star"), lib_text.clone());
            }
            r.label("has_load");
        }
        c.open("doc.star", &text);
        let mut probs: Vec<(String, String)> = Vec::new();
        let lines = &doc.lines;
        let any_astral = text.chars().any(|c| (c as u32) > 0xFFFF);
        for u in &doc.uses {
            let col16 = utf16_col(&lines[u.line], u.byte_col);
            let resp = match c.definition("doc.star", u.line as u32, col16) {
                Ok(j) => j,
                Err(e) => {
                    println!("INCONCLUSIVE lsp: {e}");
                    return r;
                }
            };
            r.evals += 1;
            let Some(tag) = read.get(&u.key) else { continue }; // use never executed
            let scope: u32 = tag.split("@s").nth(1).and_then(|s| s.split('#').next()).and_then(|s| s.parse().ok()).unwrap_or(u32::MAX);
            let nscopes = doc.bindings.iter().filter(|b| b.name == u.name).map(|b| b.scope).collect::<std::collections::HashSet<_>>().len();
            let non_ascii_before = !lines[u.line][..u.byte_col].is_ascii();
            if nscopes >= 2 {
                r.label("shadowed_use");
            }
            if non_ascii_before {
                r.label("non_ascii_before_ident");
            }
            if nscopes >= 2 || non_ascii_before {
                r.nontrivial.push(fnv(format!("{text}|{}", u.key).as_bytes()));
            }
            let result = &resp["result"];
            let locs: Vec<J> = match result {
                J::Array(a) => a.clone(),
                J::Null => Vec::new(),
                o => vec![o.clone()],
            };
            if locs.is_empty() {
                // Signature of a known finding: the cursor sits after non-ASCII text on its line (the server adds
                // the protocol's UTF-16 column to a byte offset).
                probs.push((if non_ascii_before { "lsp-cursor-column-non-ascii" } else { "definition-missing" }.into(), format!("use #{} of `{}` at {}:{} (UTF-16): no definition returned (error: {})", u.key, u.name, u.line, col16, resp["error"])));
                continue;
            }
            for loc in &locs {
                let (uri, range) = if loc.get("targetUri").is_some() { (loc["targetUri"].as_str().unwrap_or(""), &loc["targetSelectionRange"]) } else { (loc["uri"].as_str().unwrap_or(""), &loc["range"]) };
                if tag.contains("@slib#") {
                    // the program read a loaded value: the answer must be the exporting module's binding of the exported
                    // name, or the load statement of this document
                    r.label("loaded_use");
                    let Some(ld) = doc.loaded.iter().find(|l| l.0 == u.name) else { continue };
                    if uri == Client::uri("lib.star") {
                        let mut rp = Vec::new();
                        check_range(&lib_text, range, "definition range in lib.star", &mut rp);
                        let lib_astral = doc.lib_lines.get(ld.2).map(|l| l.chars().any(|c| (c as u32) > 0xFFFF)).unwrap_or(false);
                        let want = (ld.2 as u64, utf16_col(&doc.lib_lines[ld.2], ld.3) as u64);
                        let got = (range["start"]["line"].as_u64().unwrap_or(u64::MAX), range["start"]["character"].as_u64().unwrap_or(u64::MAX));
                        let bad = !rp.is_empty() || want != got || range_text(&lib_text, range).as_deref() != Some(ld.1.as_str());
                        if bad {
                            let class = if non_ascii_before { "lsp-cursor-column-non-ascii" } else if lib_astral { "lsp-range-char-columns" } else { "definition-loaded-wrong" };
                            probs.push((class.into(), format!("use #{} of loaded `{}` (exported as `{}` at lib.star {}:{}): go-to-definition leads to lib.star {}:{} covering {:?} {:?}\nlib.star:\n{lib_text}", u.key, u.name, ld.1, want.0, want.1, got.0, got.1, range_text(&lib_text, range), rp)));
                        }
                    } else if uri == Client::uri("doc.star") {
                        let mut rp = Vec::new();
                        check_range(&text, range, "definition range", &mut rp);
                        let gl = range["start"]["line"].as_u64().unwrap_or(u64::MAX) as usize;
                        let on_load = lines.get(gl).map(|l| l.starts_with("load(")).unwrap_or(false);
                        if !rp.is_empty() || !on_load {
                            let class = if non_ascii_before { "lsp-cursor-column-non-ascii" } else { "definition-loaded-wrong" };
                            probs.push((class.into(), format!("use #{} of loaded `{}`: go-to-definition leads to doc.star line {} which is not the load statement {:?}", u.key, u.name, gl + 1, rp)));
                        }
                    } else {
                        probs.push(("definition-wrong-target".into(), format!("use #{} of loaded `{}`: definition points into {uri}", u.key, u.name)));
                    }
                    continue;
                }
                if uri != Client::uri("doc.star") {
                    probs.push(("definition-wrong-target".into(), format!("use #{} of `{}`: definition points into {uri}", u.key, u.name)));
                    continue;
                }
                let mut rp = Vec::new();
                check_range(&text, range, "definition range", &mut rp);
                if let Some(full) = loc.get("targetRange") {
                    check_range(&text, full, "definition targetRange", &mut rp);
                }
                if let Some(o) = loc.get("originSelectionRange") {
                    check_range(&text, o, "originSelectionRange", &mut rp);
                }
                for p in rp {
                    let astral = text.chars().any(|c| (c as u32) > 0xFFFF);
                    probs.push((if astral { "lsp-range-char-columns" } else { "invalid-range" }.into(), format!("use #{} of `{}` at {}:{}: {p}", u.key, u.name, u.line, col16)));
                }
                let got_text = range_text(&text, range);
                let (gl, gc) = (range["start"]["line"].as_u64().unwrap_or(0) as usize, range["start"]["character"].as_u64().unwrap_or(0) as u32);
                let site = doc.bindings.iter().find(|b| b.line == gl && utf16_col(&lines[b.line], b.byte_col) == gc && b.name == u.name);
                // Signatures of known findings: (a) cursor after non-ASCII text (see above) - the server may then resolve
                // a neighbouring token; (b) the target line holds a character outside the BMP before the binding: ranges
                // are produced from character columns, not UTF-16 columns.
                let target_has_astral = lines.get(gl).map(|l| l.chars().any(|c| (c as u32) > 0xFFFF)).unwrap_or(false);
                let known_class = if non_ascii_before { Some("lsp-cursor-column-non-ascii") } else if target_has_astral { Some("lsp-range-char-columns") } else { None };
                if let (Some(kc), false) = (known_class, matches!(site, Some(b) if b.scope == scope)) {
                    probs.push((kc.into(), format!("use #{} of `{}` at line {} col {col16}: go-to-definition leads to {}:{} (text {:?})", u.key, u.name, u.line + 1, gl + 1, gc, got_text)));
                    continue;
                }
                match site {
                    Some(b) if b.scope == scope => {
                        if got_text.as_deref() != Some(u.name.as_str()) {
                            probs.push(("definition-wrong-range".into(), format!("use #{} of `{}`: range covers {:?}", u.key, u.name, got_text)));
                        }
                    }
                    Some(b) => probs.push((
                        "definition-wrong-scope".into(),
                        format!("use #{} of `{}` at line {}: the running program reads the binding of scope s{scope} (value {tag:?}) but go-to-definition leads to line {} which binds `{}` in scope s{}", u.key, u.name, u.line + 1, b.line + 1, b.name, b.scope),
                    )),
                    None => probs.push(("definition-not-a-binding".into(), format!("use #{} of `{}` at line {} col {col16}: go-to-definition leads to {}:{} (text {:?}) which is not a binding site of that name", u.key, u.name, u.line + 1, gl + 1, gc, got_text))),
                }
            }
        }
        // completion and hover at use sites (and just after the identifier): answered; every range valid for this document
        let mut extra_positions: Vec<(u32, u32)> = Vec::new();
        for u in doc.uses.iter().take(6) {
            let col16 = utf16_col(&lines[u.line], u.byte_col);
            extra_positions.push((u.line as u32, col16));
            extra_positions.push((u.line as u32, col16 + 1));
        }
        // inside the load statement (load path / load symbol completion) and inside call parentheses (parameter completion)
        for (i, l) in lines.iter().enumerate() {
            if l.starts_with("load(") {
                extra_positions.push((i as u32, 7));
                extra_positions.push((i as u32, utf16_col(l, l.find(", ").map(|x| x + 3).unwrap_or(0))));
            }
            if extra_positions.len() < 24 {
                if let Some(pos) = l.find("()") {
                    extra_positions.push((i as u32, utf16_col(l, pos + 1)));
                    // on the function name of a call statement `fN()` (hover shows the docstring of the def)
                    let t = l.trim_start();
                    if t.starts_with('f') && t.ends_with("()") {
                        extra_positions.push((i as u32, utf16_col(l, l.len() - t.len()) + 1));
                    }
                }
            }
        }
        let nl_ = lines.len() as u32;
        extra_positions.push((ch.below(nl_.max(1)), ch.below(80)));
        extra_positions.push((nl_ + 1, 0));
        for (l, col) in extra_positions {
            for kind in ["completion", "hover"] {
                let resp = if kind == "completion" { c.completion("doc.star", l, col) } else { c.hover("doc.star", l, col) };
                let resp = match resp {
                    Ok(j) => j,
                    Err(e) => {
                        println!("INCONCLUSIVE lsp: {e}");
                        return r;
                    }
                };
                r.evals += 1;
                r.label(if kind == "completion" { "completion_request" } else { "hover_request" });
                let mut ranges = Vec::new();
                collect_ranges(&resp["result"], &mut ranges);
                if !ranges.is_empty() {
                    r.label(if kind == "completion" { "completion_with_edit_range" } else { "hover_with_range" });
                }
                for range in ranges {
                    let mut rp = Vec::new();
                    check_range(&text, &range, kind, &mut rp);
                    let before_non_ascii = lines.get(l as usize).map(|s| {
                        let mut n16 = 0u32;
                        let mut non_ascii = false;
                        for ch_ in s.chars() {
                            if n16 >= col { break; }
                            n16 += ch_.len_utf16() as u32;
                            non_ascii |= !ch_.is_ascii();
                        }
                        non_ascii
                    }).unwrap_or(false);
                    for p in rp {
                        let class = if any_astral { "lsp-range-char-columns" } else if before_non_ascii { "lsp-cursor-column-non-ascii" } else { "invalid-range" };
                        probs.push((class.into(), format!("{kind} at {l}:{col}: {p}")));
                    }
                }
            }
        }
        // other positions: must be answered, ranges valid
        let nlines = lines.len() as u32;
        let grid: Vec<(u32, u32)> = vec![(0, 0), (0, 10_000), (nlines, 0), (nlines + 5, 3), (ch.below(nlines.max(1)), ch.below(60)), (ch.below(nlines.max(1)), ch.below(60)), (ch.below(nlines.max(1)), ch.below(60))];
        for (l, col) in grid {
            match c.definition("doc.star", l, col) {
                Ok(resp) => {
                    r.evals += 1;
                    let locs: Vec<J> = match &resp["result"] {
                        J::Array(a) => a.clone(),
                        J::Null => Vec::new(),
                        o => vec![o.clone()],
                    };
                    for loc in &locs {
                        let range = if loc.get("targetUri").is_some() { &loc["targetSelectionRange"] } else { &loc["range"] };
                        let uri = loc.get("targetUri").or(loc.get("uri")).and_then(|u| u.as_str()).unwrap_or("");
                        if uri == Client::uri("doc.star") {
                            let mut rp = Vec::new();
                            check_range(&text, range, "definition range", &mut rp);
                            for p in rp {
                                probs.push(("invalid-range".into(), format!("position {l}:{col}: {p}")));
                            }
                        }
                    }
                }
                Err(e) => {
                    println!("INCONCLUSIVE lsp: {e}");
                    return r;
                }
            }
        }
        // history: change to another document, then to unparsable text, then close
        c.change("doc.star", &text2);
        if let Some(u) = doc2.uses.iter().find(|u| !doc2.loaded.iter().any(|l| l.0 == u.name)) {
            let col16 = utf16_col(&doc2.lines[u.line], u.byte_col);
            if let Ok(resp) = c.definition("doc.star", u.line as u32, col16) {
                r.evals += 1;
                if let Some(loc) = resp["result"].as_array().and_then(|a| a.first()).filter(|loc| loc.get("targetUri").or(loc.get("uri")).and_then(|u| u.as_str()) == Some(Client::uri("doc.star").as_str())) {
                    let range = if loc.get("targetUri").is_some() { &loc["targetSelectionRange"] } else { &loc["range"] };
                    let mut rp = Vec::new();
                    check_range(&text2, range, "definition range after didChange", &mut rp);
                    for p in rp {
                        probs.push(("invalid-range".into(), p));
                    }
                    if range_text(&text2, range).as_deref() != Some(u.name.as_str()) {
                        let gl = range["start"]["line"].as_u64().unwrap_or(0) as usize;
                        let class = if !doc2.lines[u.line][..u.byte_col].is_ascii() {
                            "lsp-cursor-column-non-ascii"
                        } else if doc2.lines.get(gl).map(|l| l.chars().any(|c| (c as u32) > 0xFFFF)).unwrap_or(false) {
                            "lsp-range-char-columns"
                        } else {
                            "stale-after-change"
                        };
                        probs.push((class.into(), format!("after didChange the definition of `{}` (use at line {}) covers {:?} of the new text:\n{text2}", u.name, u.line + 1, range_text(&text2, range))));
                    }
                }
            }
        }
        let broken = format!("{}def broken(:\n  x = \"é😀\" +\n", text2.chars().take(200).collect::<String>());
        c.change("doc.star", &broken);
        let _ = c.definition("doc.star", 0, 0).map(|_| r.evals += 1);
        c.close("doc.star");
        let _ = c.definition("doc.star", 0, 0).map(|_| r.evals += 1);
        let _ = c.definition("never-opened.star", 3, 3).map(|_| r.evals += 1);
        // reopen after close, as editors do: version numbers start again at 1; a later change must be taken into account
        c.version = 0;
        c.open("doc.star", &text);
        c.change("doc.star", &text2);
        if let Some(u) = doc2.uses.iter().find(|u| !doc2.loaded.iter().any(|l| l.0 == u.name)) {
            let col16 = utf16_col(&doc2.lines[u.line], u.byte_col);
            let non_ascii_before = !doc2.lines[u.line][..u.byte_col].is_ascii();
            if let Ok(resp) = c.definition("doc.star", u.line as u32, col16) {
                r.evals += 1;
                r.label("reopened");
                let loc = resp["result"].as_array().and_then(|a| a.first()).cloned();
                match loc {
                    Some(loc) if loc.get("targetUri").or(loc.get("uri")).and_then(|x| x.as_str()) == Some(Client::uri("doc.star").as_str()) => {
                        let range = if loc.get("targetUri").is_some() { &loc["targetSelectionRange"] } else { &loc["range"] };
                        let gl = range["start"]["line"].as_u64().unwrap_or(0) as usize;
                        let astral_target = doc2.lines.get(gl).map(|l| l.chars().any(|c| (c as u32) > 0xFFFF)).unwrap_or(false);
                        if range_text(&text2, range).as_deref() != Some(u.name.as_str()) && !non_ascii_before && !astral_target {
                            probs.push(("stale-after-reopen".into(), format!("after didClose, didOpen (version 1) and didChange (version 2) the definition of `{}` (use at line {}) covers {:?} of the current text - the change was not taken into account\n--- current text\n{text2}", u.name, u.line + 1, range_text(&text2, range))));
                        }
                    }
                    None if !non_ascii_before => {
                        probs.push(("stale-after-reopen".into(), format!("after didClose, didOpen and didChange there is no definition for `{}` at line {} of the current text\n--- current text\n{text2}", u.name, u.line + 1)));
                    }
                    _ => {}
                }
            }
        }
        // diagnostics ranges
        let diags = std::mem::take(&mut c.diagnostics);
        let versions = [&text, &text2, &broken];
        for d in &diags {
            for item in d["diagnostics"].as_array().cloned().unwrap_or_default() {
                r.evals += 1;
                // valid for at least the document version it could belong to
                let ok = versions.iter().any(|t| {
                    let mut rp = Vec::new();
                    check_range(t, &item["range"], "diagnostic range", &mut rp);
                    rp.is_empty()
                });
                if !ok {
                    probs.push(("invalid-range".into(), format!("diagnostic {:?} has a range that is invalid for every version of the document: {}", item["message"], item["range"])));
                }
            }
        }
        if !c.shutdown() {
            probs.push(("server-did-not-stop".into(), "the server thread did not end (or panicked) after shutdown/exit".into()));
        }
        check_tree_and_runtime_spans(&text, &mut r);
        check_runtime_error_positions(&text, lib_frozen.as_ref(), &mut r);
        check_resolved_spans(&broken, &mut r);
        check_resolved_spans(&format!("{text}x = \"é😀\" + )\n"), &mut r);
        for (c, m) in probs {
            r.fail(&c, format!("{m}\n{text}"));
        }
        r.evals = r.evals.max(1);
        r
    }
}
