//! C15 — call-depth, tick and cancellation limits end evaluation with an error, exactly.

use std::cell::Cell;
use std::rc::Rc;

use starlark::environment::Module;
use starlark::eval::Evaluator;

use crate::engine::*;
use crate::sl;

pub struct C15;

/// Recursion shapes: (name, definitions, frames per level `a`, constant frames `b`).
/// The model is "every function call, native included, pushes a frame" (DEFAULT 50; the module itself
/// occupies one): a recursion of depth d needs a*d + b frames and succeeds iff that is <= N.
/// `a` follows from the shape (number of calls per level); `b` was calibrated on the unchanged tree.
struct Shape {
    name: &'static str,
    defs: &'static str,
    a: u64,
    b: u64,
}

const SHAPES: &[Shape] = &[
    Shape { name: "direct", defs: "def go(d):\n    if d == 0:\n        return 0\n    return 1 + go(d - 1)\n", a: 1, b: 2 },
    Shape { name: "mutual2", defs: "def go(d):\n    if d == 0:\n        return 0\n    return 1 + other(d - 1)\ndef other(d):\n    if d == 0:\n        return 0\n    return 1 + go(d - 1)\n", a: 1, b: 2 },
    Shape {
        name: "mutual3",
        defs: "def go(d):\n    if d == 0:\n        return 0\n    return 1 + o1(d - 1)\ndef o1(d):\n    if d == 0:\n        return 0\n    return 1 + o2(d - 1)\ndef o2(d):\n    if d == 0:\n        return 0\n    return 1 + go(d - 1)\n",
        a: 1,
        b: 2,
    },
    Shape { name: "lambda", defs: "go = lambda d: 0 if d == 0 else 1 + go(d - 1)\n", a: 1, b: 2 },
    Shape { name: "comprehension", defs: "def go(d):\n    if d == 0:\n        return 0\n    return [1 + go(d - 1) for _q in [0]][0]\n", a: 1, b: 2 },
    Shape { name: "sorted_key", defs: "def go(d):\n    if d == 0:\n        return 0\n    return sorted([d], key = lambda x: go(x - 1))[0]\n", a: 3, b: 2 },
    Shape { name: "map", defs: "def go(d):\n    if d == 0:\n        return 0\n    return map(lambda x: 1 + go(x - 1), [d])[0]\n", a: 3, b: 2 },
    Shape { name: "filter", defs: "def go(d):\n    if d == 0:\n        return 0\n    return len(filter(lambda x: go(x - 1) >= 0, [d]))\n", a: 3, b: 2 },
    Shape { name: "partial", defs: "def go(d):\n    if d == 0:\n        return 0\n    return 1 + partial(go, d - 1)()\n", a: 2, b: 2 },
    Shape { name: "closure", defs: "def mk():\n    def inner(d):\n        if d == 0:\n            return 0\n        return 1 + inner(d - 1)\n    return inner\ngo = mk()\n", a: 1, b: 2 },
    Shape { name: "max_key", defs: "def go(d):\n    if d == 0:\n        return 0\n    return max([d], key = lambda x: go(x - 1))\n", a: 3, b: 2 },
];

#[derive(Debug, PartialEq, Clone)]
enum Out {
    Ok(Vec<String>),
    StackOverflow,
    Other(String),
}

/// Runs `emit(go(d))` with call-stack limit `n` (None = default). `frozen` = defs in a frozen module.
fn run_depth(shape: &Shape, d: u64, n: Option<usize>, frozen: bool) -> (Out, bool) {
    let cfg = sl::RunCfg { callstack: n, max_ticks: 50_000_000, ..Default::default() };
    let call = format!("emit(go({d}))\n");
    let mut probe_ok = true;
    let out = if frozen {
        let (o, fm) = sl::run_and_freeze("defs.star", shape.defs, &sl::RunCfg::default(), &[]);
        match fm {
            None => return (Out::Other(format!("defs failed: {:?}", o.result.err().map(|e| e.msg))), true),
            Some(fm) => run_with_probe("use.star", &format!("load(\"defs.star\", \"go\")\n{call}"), &cfg, &[("defs.star", &fm)], &mut probe_ok),
        }
    } else {
        run_with_probe("use.star", &format!("{}{call}", shape.defs), &cfg, &[], &mut probe_ok)
    };
    (out, probe_ok)
}

const PROBE: &str = "_pl = [1, 2]\n_pl.append(len(_pl))\ndef _pf(x):\n    return [y * 2 for y in x]\nemit(_pf(_pl))\n";

/// Evaluates `src`; after an error evaluates the probe on the same evaluator (reusability).
fn run_with_probe(name: &str, src: &str, cfg: &sl::RunCfg, loads: &[(&str, &starlark::environment::FrozenModule)], probe_ok: &mut bool) -> Out {
    let mut probe_tx: Option<Vec<String>> = None;
    let mut ended_empty = true;
    let out = sl::run_src_with(name, src, cfg, loads, |_m, eval| {
        ended_empty = eval.call_stack_count() == 0;
        let before = sl::tx_len();
        let ast = sl::parse("probe.star", PROBE, &cfg.dialect).unwrap();
        let r = eval.eval_module(ast, sl::globals());
        let mut all = sl::tx_take();
        let tail = all.split_off(before);
        for t in all {
            sl::tx_push(t);
        }
        probe_tx = Some(if r.is_ok() { tail } else { vec![format!("probe failed: {}", r.err().map(|e| format!("{}", e.without_diagnostic())).unwrap_or_default())] });
    });
    let failed = out.result.is_err();
    if failed {
        // the tick budget, when set, is used up for good: the probe may legitimately hit the same limit
        let tick_limited = out.result.as_ref().err().map(|e| e.msg.contains("tick")).unwrap_or(false);
        *probe_ok = ended_empty && (tick_limited || probe_tx.as_deref() == Some(&["[2,4,4]".to_owned()][..]));
    }
    match out.result {
        Ok(_) => Out::Ok(out.tx),
        Err(e) if e.kind == "StackOverflow" => Out::StackOverflow,
        Err(e) => Out::Other(format!("[{}] {}", e.kind, e.msg)),
    }
}

// ---- tick workloads ------------------------------------------------------------------------------------

/// Workload with a statically known tick count (one tick per executed call instruction and per loop
/// iteration; calibrated on the unchanged tree: a loop of n >= 1 iterations costs n ticks).
#[derive(Clone, Debug)]
enum W {
    Loop(u64, Vec<W>),
    Emit,
    CallDef(usize),
    Compr(u64),
    /// Call of `partial(w_i)` bound to a module-level name (a callable value that is neither a def nor a native).
    CallPartial(usize),
    /// Call of a record type (constructor) and of a bound method stored in a variable.
    CallRecord,
    CallBound,
}

fn ticks(w: &[W], defs: &[Vec<W>]) -> u64 {
    w.iter()
        .map(|x| match x {
            // entering the loop evaluates range(opaque(n)): two native calls
            W::Loop(n, body) => 2 + n + n * ticks(body, defs),
            W::Emit => 1,
            W::CallDef(i) => 1 + ticks(&defs[*i], defs),
            W::Compr(n) => 2 + *n,
            // one tick for the call instruction; the def behind the partial is entered natively (no further call
            // instruction), its body ticks as usual
            W::CallPartial(i) => 1 + ticks(&defs[*i], defs),
            W::CallRecord | W::CallBound => 1,
        })
        .sum()
}

fn emits(w: &[W], defs: &[Vec<W>]) -> u64 {
    w.iter()
        .map(|x| match x {
            W::Loop(n, body) => n * emits(body, defs),
            W::Emit => 1,
            W::CallDef(i) | W::CallPartial(i) => emits(&defs[*i], defs),
            W::Compr(_) | W::CallRecord | W::CallBound => 0,
        })
        .sum()
}

fn render_w(w: &[W], indent: usize, out: &mut String, ctr: &mut u32) {
    let pad = "    ".repeat(indent);
    if w.is_empty() {
        out.push_str(&format!("{pad}pass\n"));
    }
    for x in w {
        match x {
            W::Loop(n, body) => {
                *ctr += 1;
                out.push_str(&format!("{pad}for _i{} in range(opaque({n})):\n", *ctr));
                render_w(body, indent + 1, out, ctr);
            }
            W::Emit => out.push_str(&format!("{pad}emit(0)\n")),
            W::CallDef(i) => out.push_str(&format!("{pad}w{i}()\n")),
            W::CallPartial(i) => out.push_str(&format!("{pad}pw{i}()\n")),
            W::CallRecord => out.push_str(&format!("{pad}_r = WRec(a = 1)\n")),
            W::CallBound => out.push_str(&format!("{pad}_b = wfmt(1)\n")),
            W::Compr(n) => {
                *ctr += 1;
                out.push_str(&format!("{pad}_c{} = [_q for _q in range(opaque({n}))]\n", *ctr));
            }
        }
    }
}

fn gen_w(ch: &mut Choices, depth: u32, ndefs: usize, budget: &mut u64) -> Vec<W> {
    let n = 1 + ch.idx(3);
    let mut v = Vec::new();
    for _ in 0..n {
        if *budget == 0 {
            break;
        }
        match ch.weighted(&[4, 3, if ndefs > 0 { 2 } else { 0 }, 1, if ndefs > 0 { 1 } else { 0 }, 1]) {
            4 => v.push(W::CallPartial(ch.idx(ndefs))),
            // (calls of record types and of bound methods of constant strings with constant arguments are folded at
            // compile time once everything is frozen - legitimately 0 ticks - so they are not part of the exact model)
            5 => v.push(W::Emit),
            0 if depth < 3 => {
                let k = *ch.pick(&[0u64, 1, 2, 3, 7, 10, 40, 100, 333]);
                let k = k.min(*budget);
                *budget /= k.max(1);
                let body = gen_w(ch, depth + 1, ndefs, budget);
                v.push(W::Loop(k, body));
            }
            1 | 0 => v.push(W::Emit),
            2 => v.push(W::CallDef(ch.idx(ndefs))),
            _ => v.push(W::Compr(*ch.pick(&[0u64, 1, 5, 50]))),
        }
    }
    v
}

#[derive(Clone)]
struct Workload {
    src_defs: String,
    body: String,
    t: u64,
    e: u64,
    /// Ticks spent by the module-level set-up statements of `src_defs` (record(...) and one partial(...) per def).
    setup: u64,
}

fn gen_workload(ch: &mut Choices) -> Workload {
    let ndefs = ch.idx(3);
    let mut defs: Vec<Vec<W>> = Vec::new();
    let mut budget = 4000u64;
    for i in 0..ndefs {
        let mut b = 30;
        let body = gen_w(ch, 2, i, &mut b);
        defs.push(body);
    }
    let main = gen_w(ch, 0, ndefs, &mut budget);
    let mut src_defs = String::new();
    let mut ctr = 0;
    for (i, d) in defs.iter().enumerate() {
        // a statement before the body keeps the def from being inlined (inlining is legitimate and would
        // change the count between configurations)
        src_defs.push_str(&format!("def w{i}():\n    _x = []\n"));
        render_w(d, 1, &mut src_defs, &mut ctr);
        src_defs.push_str(&format!("pw{i} = partial(w{i})\n"));
    }
    src_defs.push_str("WRec = record\nwfmt = \"{}-x\".format\n");
    let mut body = String::new();
    render_w(&main, 0, &mut body, &mut ctr);
    Workload { src_defs, body, t: ticks(&main, &defs), e: emits(&main, &defs), setup: defs.len() as u64 }
}

#[derive(Clone, Copy, Debug, PartialEq)]
enum Place {
    Module,
    InDef,
    Frozen,
}

/// Returns (outcome, emits executed, ticks reported, probe ok)
fn run_ticks(w: &Workload, place: Place, budget: Option<u64>, cancel_at: Option<u64>) -> (Result<(), String>, u64, u64, bool) {
    let cfg = sl::RunCfg { max_ticks: budget.unwrap_or(u64::MAX / 4), ..Default::default() };
    let indented: String = w.body.lines().map(|l| format!("    {l}\n")).collect();
    let (a_src, b_src): (String, String) = match place {
        Place::Module => (String::new(), format!("{}{}", w.src_defs, w.body)),
        Place::InDef => (String::new(), format!("{}def main():\n{indented}main()\n", w.src_defs)),
        Place::Frozen => (format!("{}def main():\n{indented}", w.src_defs), "load(\"a.star\", \"main\")\nmain()\n".to_owned()),
    };
    let fm = if place == Place::Frozen {
        match sl::run_and_freeze("a.star", &a_src, &sl::RunCfg::default(), &[]).1 {
            Some(f) => Some(f),
            None => return (Err("defs failed".into()), 0, 0, true),
        }
    } else {
        None
    };
    let loads: Vec<(&str, &starlark::environment::FrozenModule)> = fm.iter().map(|f| ("a.star", f)).collect();
    sl::tx_reset();
    let ast = match sl::parse("w.star", &b_src, &cfg.dialect) {
        Ok(a) => a,
        Err(e) => return (Err(format!("parse {e}")), 0, 0, true),
    };
    Module::with_temp_heap(|module| {
        let map: std::collections::HashMap<&str, &starlark::environment::FrozenModule> = loads.iter().copied().collect();
        let loader = starlark::eval::ReturnFileLoader { modules: &map };
        let mut eval = Evaluator::new(&module);
        eval.set_loader(&loader);
        if budget.is_some() {
            let _ = eval.set_max_tick_count(cfg.max_ticks);
        }
        let flag = Rc::new(Cell::new(false));
        if let Some(k) = cancel_at {
            let f2 = flag.clone();
            eval.set_check_cancelled(Box::new(move || {
                // deterministic, program-progress driven: true once k emits have run
                if sl::emit_count() >= k {
                    f2.set(true);
                }
                f2.get()
            }));
        }
        let r = eval.eval_module(ast, sl::globals());
        let e = sl::emit_count();
        let t = eval.get_total_tick_count();
        let res = r.map(|_| ()).map_err(|e| format!("{}", e.without_diagnostic()));
        let mut probe_ok = true;
        if res.is_err() {
            probe_ok = eval.call_stack_count() == 0;
            if cancel_at.is_none() && budget.is_none() {
                probe_ok = false;
            }
        }
        (res, e, t, probe_ok)
    })
}

/// One evaluator reused over several rounds: every round but the last is ended by a cancellation request raised when
/// its k-th emit runs (an error produced by the periodic check); the last round is either cancelled the same way or
/// runs under a tick budget set just before it (B = ticks so far + T + delta). Limits must be honoured in EVERY round
/// exactly as on a fresh evaluator: "after any of these errors the evaluator is reusable".
fn run_reuse(ws: &[Workload], ks: &[u64], last_budget_delta: Option<i64>, r: &mut CaseResult) {
    Module::with_temp_heap(|module| {
        let mut eval = Evaluator::new(&module);
        let threshold: Rc<Cell<Option<u64>>> = Rc::new(Cell::new(None));
        let flag = Rc::new(Cell::new(false));
        {
            let (t2, f2) = (threshold.clone(), flag.clone());
            eval.set_check_cancelled(Box::new(move || {
                if let Some(k) = t2.get() {
                    if sl::emit_count() >= k {
                        f2.set(true);
                    }
                }
                f2.get()
            }));
        }
        let n = ws.len();
        for (i, w) in ws.iter().enumerate() {
            // between rounds (chosen from the round's cancellation position): a recursion beyond the default call-stack
            // limit must fail with the stack-overflow error, leave the call stack empty, and a legal recursion must work
            if ks.get(i).map(|k| k % 3 == 0).unwrap_or(false) {
                threshold.set(None);
                flag.set(false);
                let deep = "def _rec(n):\n    return 0 if n == 0 else 1 + _rec(n - 1)\n_too_deep = _rec(100)\n";
                let res = eval.eval_module(sl::parse("deep.star", deep, &sl::dialect_all()).unwrap(), sl::globals());
                r.evals += 1;
                match res {
                    Ok(_) => r.fail("depth-limit-not-enforced", format!("round {i} on a reused evaluator: recursion depth 100 succeeded under the default limit")),
                    Err(e) => {
                        if !matches!(e.kind(), starlark::ErrorKind::StackOverflow(_)) {
                            r.fail("depth-limit-wrong-error", format!("round {i} on a reused evaluator: expected the stack-overflow error, got {}", e.without_diagnostic()));
                        }
                    }
                }
                if eval.call_stack_count() != 0 {
                    r.fail("not-reusable", format!("round {i}: call stack not empty after the stack-overflow error"));
                }
                let ok = eval.eval_module(sl::parse("shallow.star", "_fine = _rec(20)\n", &sl::dialect_all()).unwrap(), sl::globals());
                r.evals += 1;
                if let Err(e) = ok {
                    r.fail("not-reusable", format!("round {i}: after a stack-overflow error a recursion of depth 20 fails: {}", e.without_diagnostic()));
                }
            }
            let src = format!("{}{}", w.src_defs, w.body);
            let ast = match sl::parse(&format!("round{i}.star"), &src, &sl::dialect_all()) {
                Ok(a) => a,
                Err(e) => {
                    r.fail("generator-bug", format!("parse {e}"));
                    return;
                }
            };
            sl::tx_reset();
            flag.set(false);
            let t0 = eval.get_total_tick_count();
            let last = i + 1 == n;
            let wt = w.t + w.setup;
            let budget = if last { last_budget_delta.map(|d| ((t0 + wt) as i64 + d).max(1) as u64) } else { None };
            if let Some(b) = budget {
                threshold.set(None);
                if eval.set_max_tick_count(b).is_err() {
                    r.fail("generator-bug", "tick budget set twice".into());
                }
            } else {
                threshold.set(Some(ks[i]));
            }
            let res = eval.eval_module(ast, sl::globals()).map(|_| ()).map_err(|e| format!("{}", e.without_diagnostic()));
            let e = sl::emit_count();
            r.evals += 1;
            let what = format!("round {i} of {n} on a reused evaluator (earlier rounds ended with a cancellation error)");
            match budget {
                None => {
                    let k = ks[i];
                    match &res {
                        Ok(()) => r.fail("cancel-ignored", format!("{what}: cancellation requested at emit {k} of {} but evaluation completed", w.e)),
                        Err(m) => {
                            if !m.to_lowercase().contains("cancel") {
                                r.fail("cancel-wrong-error", format!("{what}: expected the cancellation error, got {m}"));
                            }
                            if e > k + 1001 {
                                r.fail("cancel-late", format!("{what}: cancellation requested at emit {k}; {e} emits ran (more than the check interval later)"));
                            }
                        }
                    }
                }
                Some(b) => {
                    let want_fail = t0 + wt > b;
                    match (&res, want_fail) {
                        (Ok(()), true) => r.fail("tick-limit-not-enforced", format!("{what}: {t0} ticks so far + T={} > budget {b} but evaluation succeeded", wt)),
                        (Err(m), false) => r.fail("tick-limit-too-early", format!("{what}: {t0} + T={} <= budget {b} but evaluation failed: {m}", wt)),
                        (Err(m), true) => {
                            if !m.contains("tick") {
                                r.fail("tick-limit-wrong-error", format!("{what}: expected the tick-limit error, got {m}"));
                            }
                            if t0 + e > b + 1001 {
                                r.fail("tick-limit-late", format!("{what}: budget {b}, {t0} ticks before the round, {e} emits ran in it: more than budget + check interval"));
                            }
                        }
                        (Ok(()), false) => {
                            if eval.get_total_tick_count() != t0 + wt {
                                r.fail("tick-count-model", format!("{what}: total tick count {} but {t0} + {} expected", eval.get_total_tick_count(), wt));
                            }
                        }
                    }
                }
            }
            if res.is_err() && eval.call_stack_count() != 0 {
                r.fail("not-reusable", format!("{what}: call stack not empty after the error"));
            }
        }
    });
}

pub fn calibrate() {
    for s in SHAPES {
        for n in [5usize, 20, 50] {
            let mut last_ok = None;
            let mut non_monotone = false;
            for d in 0..80u64 {
                let (o, _) = run_depth(s, d, Some(n), false);
                match o {
                    Out::Ok(_) => {
                        if last_ok.map(|l| l + 1 != d).unwrap_or(d != 0) {
                            non_monotone = true;
                        }
                        last_ok = Some(d);
                    }
                    Out::StackOverflow => {}
                    Out::Other(m) => {
                        println!("{} N={n} d={d}: OTHER {m}", s.name);
                        break;
                    }
                }
            }
            println!("{} N={n}: max ok depth {:?} non_monotone={non_monotone} model says {:?}", s.name, last_ok, (n as u64).checked_sub(s.b).map(|x| x / s.a));
        }
    }
}

impl Prop for C15 {
    fn id(&self) -> &'static str {
        "C15"
    }
    fn cases(&self, tier: Tier) -> u64 {
        match tier {
            Tier::Quick => 4_000,
            Tier::Thorough => 150_000,
        }
    }
    fn choice_len(&self, _tier: Tier) -> (usize, usize) {
        (10, 200)
    }
    fn rule(&self) -> String {
        "Enumerated every run: 11 recursion shapes (direct, mutual x2/x3, lambda, comprehension element, sorted(key=), map, filter, partial, closure, max(key=)) x call-stack limits N in {2..12, 50 (default, unset), 51, 200} x every depth in [d*-3, d*+3] around the model threshold, unfrozen and frozen+loaded. Model: a recursion of depth d needs a*d + b frames (every call, native included, pushes one; the module takes one) and must succeed iff a*d + b <= N, otherwise fail with ErrorKind::StackOverflow - never crash - and a successful run prints what it prints under N = 10000; after the error call_stack_count() == 0 and a probe evaluation on the same evaluator succeeds. Random part: tick workloads with statically known tick count T (nested opaque-range loops, comprehensions, emit calls, non-inlinable defs) at module level / in a def / frozen+loaded, with budgets B in {T-1001, T-1000, T-999, T-2, T-1, T, T+1, T+1000, random}: must fail iff T > B; when it fails, at most B + 1000 (+ one statement) ticks' worth of emits ran; get_total_tick_count() == T on success, identical over three repetitions; cancellation raised when the k-th emit runs stops evaluation within the 1000-tick check interval. Non-trivial = |a*d+b - N| <= 1, |T - B| <= 1, B in [T-1000, T), or a cancellation case; distinct = distinct (shape, N, d) / workload text + budget.".into()
    }
    fn assumptions(&self) -> Vec<String> {
        vec![
            "constant b = 2 frames (module + first call) and per-level costs a were calibrated on the unchanged tree against the documented rule that natives push frames too".into(),
            "tick model: one tick per executed call instruction (def, lambda, native) and per loop/comprehension iteration; method calls on the known-method fast path and calls made by natives are not used in tick workloads".into(),
            "cancellation is driven by program progress (emit counter), not wall-clock".into(),
        ]
    }
    fn has_exhaustive(&self) -> bool {
        true
    }
    fn exhaustive(&self, ctx: &mut Ctx, sink: &mut dyn FnMut(CaseResult)) {
        let ns: Vec<Option<usize>> = (2..=12).map(Some).chain([None, Some(51), Some(200)]).collect();
        let mut idx = 0;
        for s in SHAPES {
            for n in &ns {
                for frozen in [false, true] {
                    idx += 1;
                    if idx % ctx.workers != ctx.worker {
                        continue;
                    }
                    let nn = n.unwrap_or(50) as u64;
                    let dstar = if nn >= s.b { (nn - s.b) / s.a } else { 0 };
                    let lo = dstar.saturating_sub(3);
                    for d in lo..=dstar + 3 {
                        let mut r = CaseResult::new(format!("[enumerated] shape {} N={:?} depth {d} frozen={frozen}\n{}emit(go({d}))", s.name, n, s.defs));
                        let need = s.a * d + s.b;
                        let (o, probe_ok) = run_depth(s, d, *n, frozen);
                        let (big, _) = run_depth(s, d, Some(10_000), frozen);
                        let want_ok = need <= nn;
                        match (&o, want_ok) {
                            (Out::Ok(tx), true) => {
                                if Out::Ok(tx.clone()) != big {
                                    r.fail("limit-changed-result", format!("within the limit but output {:?} differs from the unlimited run {:?}", tx, big));
                                }
                            }
                            (Out::StackOverflow, false) => {}
                            (Out::Ok(_), false) => r.fail("depth-limit-not-enforced", format!("needs {need} frames with limit {nn} but succeeded")),
                            (Out::StackOverflow, true) => r.fail("depth-limit-too-early", format!("needs {need} frames with limit {nn} but failed with stack overflow")),
                            (Out::Other(m), _) => r.fail("depth-limit-wrong-error", format!("needs {need} frames with limit {nn}: unexpected outcome {m}")),
                        }
                        if !probe_ok {
                            r.fail("not-reusable", "after the stack-overflow error the evaluator is not reusable (call stack not empty or probe failed)".into());
                        }
                        if need.abs_diff(nn) <= 1 {
                            r.nontrivial.push(fnv(format!("{}|{:?}|{d}|{frozen}", s.name, n).as_bytes()));
                        }
                        r.label("depth");
                        sink(r);
                    }
                }
            }
        }
    }
    fn run(&self, _ctx: &mut Ctx, ch: &mut Choices) -> CaseResult {
        let w = gen_workload(ch);
        let place = *ch.pick(&[Place::Module, Place::InDef, Place::Frozen]);
        // the call of main() itself is one more call instruction
        // the set-up statements run in the evaluated module except when the defs live in the frozen module
        let t = w.t + if place == Place::Module { 0 } else { 1 } + if place == Place::Frozen { 0 } else { w.setup };
        let mode = ch.below(10);
        let mut r = CaseResult::new(format!("[{place:?}] T={t} emits={}\n{}{}", w.e, w.src_defs, w.body));
        r.evals = 0;
        // unlimited run: the reported count equals the model, three times
        let mut counts = Vec::new();
        for _ in 0..3 {
            let (res, e, tt, _) = run_ticks(&w, place, None, None);
            r.evals += 1;
            if let Err(m) = &res {
                r.fail("generator-bug", format!("workload failed without limits: {m}"));
                return r;
            }
            if e != w.e {
                r.fail("generator-bug", format!("emit model {} vs executed {e}", w.e));
            }
            counts.push(tt);
        }
        if counts.iter().any(|c| *c != counts[0]) {
            r.fail("tick-count-unstable", format!("get_total_tick_count() differs between runs: {counts:?}"));
        }
        if counts[0] != t {
            r.fail("tick-count-model", format!("get_total_tick_count() = {} but the program executes {t} calls and loop iterations", counts[0]));
        }
        if mode < 7 {
            // budget around T
            let cands: Vec<i64> = vec![-1001, -1000, -999, -500, -2, -1, 0, 1, 1000];
            let delta = if ch.chance(3, 4) { *ch.pick(&cands) } else { ch.range(-1500, 100) };
            let b = (t as i64 + delta).max(1) as u64;
            let (res, e, _tt, probe_ok) = run_ticks(&w, place, Some(b), None);
            r.evals += 1;
            let want_fail = t > b;
            match (&res, want_fail) {
                (Ok(()), true) => r.fail("tick-limit-not-enforced", format!("T={t} > budget {b} but evaluation succeeded")),
                (Err(m), false) => r.fail("tick-limit-too-early", format!("T={t} <= budget {b} but evaluation failed: {m}")),
                (Err(m), true) => {
                    if !m.contains("tick") {
                        r.fail("tick-limit-wrong-error", format!("expected the tick-limit error, got {m}"));
                    }
                    // at most B + 1000 ticks (plus the statement in flight) ran: emits are a subset of ticks
                    if e > b + 1001 {
                        r.fail("tick-limit-late", format!("budget {b}: {e} emits ran, more than budget + check interval"));
                    }
                }
                (Ok(()), false) => {}
            }
            if !probe_ok {
                r.fail("not-reusable", "call stack not empty after the tick-limit error".into());
            }
            if t.abs_diff(b) <= 1 || (b < t && t - b <= 1000) {
                r.nontrivial.push(fnv(format!("{}|{b}", r.sample).as_bytes()));
            }
            r.label("tick_budget");
        } else if w.e > 0 {
            // cancellation when the k-th emit runs
            let k = 1 + ch.below(w.e.min(3000) as u32) as u64;
            let (res, e, _tt, probe_ok) = run_ticks(&w, place, None, Some(k));
            r.evals += 1;
            match &res {
                Ok(()) => r.fail("cancel-ignored", format!("cancellation requested at emit {k} of {} but evaluation completed", w.e)),
                Err(m) => {
                    if !m.to_lowercase().contains("cancel") {
                        r.fail("cancel-wrong-error", format!("expected the cancellation error, got {m}"));
                    }
                    if e > k + 1001 {
                        r.fail("cancel-late", format!("cancellation requested at emit {k}; {e} emits ran (more than the check interval later)"));
                    }
                }
            }
            if !probe_ok {
                r.fail("not-reusable", "call stack not empty after cancellation".into());
            }
            r.nontrivial.push(fnv(format!("{}|cancel{k}", r.sample).as_bytes()));
            r.label("cancel");
        }
        // evaluator reuse: limits still honoured after an earlier limit error on the same evaluator
        if ch.chance(1, 2) {
            let rounds = 2 + ch.idx(3);
            let mut ws: Vec<Workload> = Vec::new();
            let mut ks: Vec<u64> = Vec::new();
            for _ in 0..rounds {
                let mut wi = gen_workload(ch);
                let mut guard = 0;
                while wi.e == 0 && guard < 4 {
                    wi = gen_workload(ch);
                    guard += 1;
                }
                if wi.e == 0 {
                    wi = w.clone();
                }
                if wi.e == 0 {
                    break;
                }
                let k = 1 + ch.below(wi.e.min(3000) as u32) as u64;
                ks.push(k);
                ws.push(wi);
            }
            if ws.len() >= 2 {
                let cands: Vec<i64> = vec![-1001, -1000, -999, -2, -1, 0, 1];
                let last_budget = if ch.bool() { Some(*ch.pick(&cands)) } else { None };
                run_reuse(&ws, &ks, last_budget, &mut r);
                r.label("evaluator_reuse");
                r.nontrivial.push(fnv(format!("{}|reuse{ks:?}{last_budget:?}", r.sample).as_bytes()));
            }
        }
        r.evals = r.evals.max(1);
        r
    }
}
