//! C12 — a container cannot be mutated while iterated and is released when iteration ends.
//! Catalogue (container kind x iterating construct x mutation x alias x exit) of tiny programs with an
//! explicit model: every attempt inside the iteration fails and leaves the container intact; a
//! mutation right after the construct ends (by any exit) succeeds.

use starlark::environment::Module;
use starlark::eval::Evaluator;

use crate::engine::*;
use crate::sl;

pub struct C12;

#[derive(Clone, Copy, Debug, PartialEq)]
enum Kind {
    List,
    Dict,
    Set,
}

impl Kind {
    fn ctor(self) -> &'static str {
        match self {
            Kind::List => "[1, 2, 3]",
            Kind::Dict => "{1: 10, 2: 20, 3: 30}",
            Kind::Set => "set([1, 2, 3])",
        }
    }
    /// (name, body of `def m(y):`) — each definitely changes the initial value.
    fn mutations(self) -> &'static [(&'static str, &'static str)] {
        match self {
            Kind::List => &[
                ("append", "y.append(4)"),
                ("extend", "y.extend([4])"),
                ("insert", "y.insert(0, 4)"),
                ("pop", "y.pop()"),
                ("pop0", "y.pop(0)"),
                ("remove", "y.remove(1)"),
                ("clear", "y.clear()"),
                ("setitem", "y[0] = 9"),
                ("setitem_neg", "y[-1] = 9"),
                ("iadd", "y += [4]"),
                ("setitem_aug", "y[0] += 5"),
                ("extend_self", "y.extend(y)"),
                ("iadd_self", "y += y"),
            ],
            Kind::Dict => &[
                ("setitem_new", "y[4] = 40"),
                ("setitem_existing", "y[1] = 99"),
                ("pop", "y.pop(1)"),
                ("popitem", "y.popitem()"),
                ("setdefault", "y.setdefault(4, 40)"),
                ("update_new", "y.update({4: 40})"),
                ("update_existing", "y.update({1: 99})"),
                ("update_kw", "y.update([(5, 50)])"),
                ("clear", "y.clear()"),
                ("ior", "y |= {4: 40}"),
                ("setitem_aug", "y[1] += 5"),
                ("ior_self", "y |= y"),
                ("update_self", "y.update(y)"),
            ],
            Kind::Set => &[
                ("add", "y.add(4)"),
                ("remove", "y.remove(1)"),
                ("discard", "y.discard(1)"),
                ("pop", "y.pop()"),
                ("clear", "y.clear()"),
                ("update", "y.update([4])"),
                ("update_self", "y.update(y)"),
            ],
        }
    }
    /// A mutation used after the construct ended: must succeed.
    fn post(self) -> &'static str {
        match self {
            Kind::List => "y.append(7)",
            Kind::Dict => "y[7] = 70",
            Kind::Set => "y.add(7)",
        }
    }
}

const KINDS: [Kind; 3] = [Kind::List, Kind::Dict, Kind::Set];

/// Iterating constructs. `{A}` = statement(s) attempting the mutation; `{X}` = the container expression.
#[derive(Clone, Copy, Debug, PartialEq)]
enum Construct {
    For,
    NestedSame,
    NestedSameAfterInner,
    ListCompr,
    ListComprInner,
    ListComprIf,
    DictCompr,
    SortedKey,
    MinKey,
    MaxKey,
    Map,
    Filter,
    ForInDef3,
    /// `for v in x: for w in <OTHER>:` - the exit happens in the inner loop over another iterable
    NestedInnerOther(u8),
    /// `for w in <OTHER>: for v in x:` - the container under test is iterated by the inner loop
    NestedOuterOther(u8),
    /// `for a in x: for b in <OTHER>: for c in x2:`
    TripleMiddleOther(u8),
}

/// Other iterables a loop of the nest may run over: literals of every kind, a constant call, a second mutable list.
const OTHERS: [&str; 6] = ["(7, 8)", "[7, 8]", "range(2)", "other", "{7: 1, 8: 2}", "\"ab\".elems()"];

fn constructs() -> Vec<Construct> {
    let mut v = vec![
        Construct::For,
        Construct::NestedSame,
        Construct::NestedSameAfterInner,
        Construct::ListCompr,
        Construct::ListComprInner,
        Construct::ListComprIf,
        Construct::DictCompr,
        Construct::SortedKey,
        Construct::MinKey,
        Construct::MaxKey,
        Construct::Map,
        Construct::Filter,
        Construct::ForInDef3,
    ];
    for i in 0..OTHERS.len() as u8 {
        v.push(Construct::NestedInnerOther(i));
        v.push(Construct::NestedOuterOther(i));
        v.push(Construct::TripleMiddleOther(i));
    }
    v
}

#[derive(Clone, Copy, Debug, PartialEq)]
enum Exit {
    Exhaustion,
    Break,
    Continue,
    Return,
    ErrorCaught,
    ErrorToHost,
}

const EXITS: [Exit; 6] = [Exit::Exhaustion, Exit::Break, Exit::Continue, Exit::Return, Exit::ErrorCaught, Exit::ErrorToHost];

#[derive(Clone, Copy, Debug, PartialEq)]
enum Alias {
    Same,
    SecondName,
    OuterElement,
    Closure,
    Argument,
}

const ALIASES: [Alias; 5] = [Alias::Same, Alias::SecondName, Alias::OuterElement, Alias::Closure, Alias::Argument];

#[derive(Clone, Debug)]
struct Entry {
    kind: Kind,
    construct: Construct,
    mutation: usize,
    alias: Alias,
    exit: Exit,
}

impl Entry {
    fn valid(&self) -> bool {
        use Construct::*;
        use Exit::*;
        match (self.construct, self.exit) {
            // break / continue only make sense in statement loops
            (For | NestedSame | NestedSameAfterInner | ForInDef3 | NestedInnerOther(_) | NestedOuterOther(_) | TripleMiddleOther(_), _) => true,
            (_, Break | Continue | Return) => false,
            _ => true,
        }
    }
    fn describe(&self) -> String {
        format!("{:?} / {:?} / {} / {:?} / {:?}", self.kind, self.construct, self.kind.mutations()[self.mutation].0, self.alias, self.exit)
    }
    fn nontrivial(&self) -> bool {
        self.exit != Exit::Exhaustion || self.alias != Alias::Same || self.construct != Construct::For
    }

    /// Source of a module defining `t()` which returns (res, post_outcome, final_repr) where res is a list
    /// of (attempt outcome, str(x) after the attempt). For `ErrorToHost`, calling `t()` fails on purpose and
    /// the state is inspected by a second evaluation on the same module through `post()`.
    fn source(&self) -> String {
        let (_, mbody) = self.kind.mutations()[self.mutation];
        let mut s = String::new();
        s.push_str(&format!("x = {}\n", self.kind.ctor()));
        s.push_str("x2 = x\nouter = [x]\nother = [7, 8]\nres = []\nX0 = str(x)\n");
        s.push_str(&format!("def m(y):\n    {mbody}\n"));
        s.push_str(&format!("def m0():\n    y = x\n    {mbody}\n"));
        s.push_str(&format!("def mpost(y):\n    {}\n", self.kind.post()));
        let attempt_call = match self.alias {
            Alias::Same => "catch(m, x)",
            Alias::SecondName => "catch(m, x2)",
            Alias::OuterElement => "catch(m, outer[0])",
            Alias::Closure => "catch(m0)",
            Alias::Argument => "catch(m, arg)",
        };
        s.push_str(&format!("def attempt(arg):\n    r = {attempt_call}\n    res.append((r[0], str(x)))\n"));
        s.push_str("def cb(v):\n    attempt(x)\n    return v\n");
        s.push_str("def bad(v):\n    attempt(x)\n    fail(\"boom\")\n");
        let failing = matches!(self.exit, Exit::ErrorCaught | Exit::ErrorToHost);
        let cbn = if failing { "bad" } else { "cb" };
        // the construct, as the body of `def loop():`
        let tail = match self.exit {
            Exit::Exhaustion => "",
            Exit::Break => "        break\n",
            Exit::Continue => "        continue\n",
            Exit::Return => "        return 1\n",
            Exit::ErrorCaught | Exit::ErrorToHost => "        fail(\"boom\")\n",
        };
        let body = match self.construct {
            Construct::For => format!("    for v in x:\n        attempt(x)\n{tail}"),
            Construct::NestedSame => {
                let tail2 = tail.replace("        ", "            ");
                format!("    for v in x:\n        for w in x:\n            attempt(x)\n{tail2}")
            }
            Construct::NestedSameAfterInner => {
                // after the inner loop over the same value ended, the outer one is still running
                format!("    for v in x:\n        for w in x:\n            pass\n        attempt(x)\n{tail}")
            }
            Construct::ForInDef3 => {
                // three nested loops over three aliases of the same value
                let tail3 = tail.replace("        ", "                ");
                format!("    for a in x:\n        for b in x2:\n            for c in outer[0]:\n                attempt(x)\n{tail3}")
            }
            Construct::NestedInnerOther(o) => {
                let tail2 = tail.replace("        ", "            ");
                format!("    for v in x:\n        for w in {}:\n            attempt(x)\n{tail2}", OTHERS[o as usize])
            }
            Construct::NestedOuterOther(o) => {
                let tail2 = tail.replace("        ", "            ");
                format!("    for w in {}:\n        for v in x:\n            attempt(x)\n{tail2}", OTHERS[o as usize])
            }
            Construct::TripleMiddleOther(o) => {
                let tail3 = tail.replace("        ", "                ");
                format!("    for a in x:\n        for b in {}:\n            for c in x2:\n                attempt(x)\n{tail3}", OTHERS[o as usize])
            }
            Construct::ListCompr => format!("    return [{cbn}(v) for v in x]\n"),
            Construct::ListComprInner => format!("    return [{cbn}(v) for a in [1, 2] for v in x]\n"),
            Construct::ListComprIf => format!("    return [v for v in x if {cbn}(v) != None]\n"),
            Construct::DictCompr => format!("    return {{v: {cbn}(v) for v in x}}\n"),
            Construct::SortedKey => format!("    return sorted(x, key = {cbn})\n"),
            Construct::MinKey => format!("    return min(x, key = {cbn})\n"),
            Construct::MaxKey => format!("    return max(x, key = {cbn})\n"),
            Construct::Map => format!("    return list(map({cbn}, x))\n"),
            Construct::Filter => format!("    return list(filter({cbn}, x))\n"),
        };
        s.push_str("def loop():\n");
        s.push_str(&body);
        s.push_str("    return 0\n");
        match self.exit {
            Exit::ErrorToHost => {
                s.push_str("def t():\n    loop()\n");
            }
            Exit::ErrorCaught => {
                s.push_str("def t():\n    lr = catch(loop)\n    p = catch(mpost, x)\n    return (res, lr[0], p[0], str(x))\n");
            }
            _ => {
                s.push_str("def t():\n    lr = catch(loop)\n    p = catch(mpost, x)\n    return (res, lr[0], p[0], str(x))\n");
            }
        }
        s.push_str("def post():\n    p = catch(mpost, x)\n    return (res, \"host\", p[0], str(x))\n");
        s
    }
}

fn all_entries() -> Vec<Entry> {
    let mut v = Vec::new();
    for kind in KINDS {
        for construct in constructs() {
            for mutation in 0..kind.mutations().len() {
                for alias in ALIASES {
                    for exit in EXITS {
                        let e = Entry { kind, construct, mutation, alias, exit };
                        if e.valid() {
                            v.push(e);
                        }
                    }
                }
            }
        }
    }
    v
}

/// Runs one entry; returns the failures (class, message).
fn run_entry(e: &Entry, _ctx: &Ctx) -> Vec<(String, String)> {
    let src = e.source();
    let mut fails = Vec::new();
    let ast = match sl::parse("c12.star", &src, &sl::dialect_all()) {
        Ok(a) => a,
        Err(err) => return vec![("generator-bug".into(), format!("parse error {err}\n{src}"))],
    };
    Module::with_temp_heap(|module| {
        let observed: Result<String, String> = {
            let mut eval = Evaluator::new(&module);
            if let Err(err) = eval.eval_module(ast, sl::globals()) {
                return fails.push(("generator-bug".into(), format!("module failed: {err}\n{src}")));
            }
            let call = |eval: &mut Evaluator, name: &str| -> Result<String, String> {
                let ast = sl::parse("call.star", &format!("{name}()\n"), &sl::dialect_all()).map_err(|e| e.to_string())?;
                eval.eval_module(ast, sl::globals()).map(sl::encode).map_err(|e| format!("{}", e.without_diagnostic()))
            };
            if e.exit == Exit::ErrorToHost {
                match call(&mut eval, "t") {
                    Ok(v) => Err(format!("expected the evaluation to fail, got {v}")),
                    Err(_) => call(&mut eval, "post"),
                }
            } else {
                call(&mut eval, "t")
            }
        };
        let enc = match observed {
            Ok(s) => s,
            Err(m) => {
                fails.push(("generator-bug".into(), format!("{}: harness program failed: {m}\n{src}", e.describe())));
                return;
            }
        };
        // enc = ([("err","<str x>",),...],"ok"/"err"/"host","ok"/"err","<final>",)
        let parts = crate::props::c10::split_top_level(&format!("[{}]", enc.trim_start_matches('(').trim_end_matches(')').trim_end_matches(',')));
        if parts.len() != 4 {
            fails.push(("generator-bug".into(), format!("unexpected result shape {enc}")));
            return;
        }
        let attempts = crate::props::c10::split_top_level(&parts[0]);
        let x0 = match e.kind {
            Kind::List => "[1, 2, 3]",
            Kind::Dict => "{1: 10, 2: 20, 3: 30}",
            Kind::Set => "set([1, 2, 3])",
        };
        if attempts.is_empty() {
            fails.push(("generator-bug".into(), format!("{}: no mutation attempt executed: {enc}\n{src}", e.describe())));
        }
        let want_attempt = format!("(\"err\",{},)", {
            let mut o = String::new();
            sl::enc_str(x0, &mut o);
            o
        });
        for (i, a) in attempts.iter().enumerate() {
            if *a != want_attempt {
                fails.push(("mutation-during-iteration".into(), format!("{}: attempt #{i} inside the iteration gave {a}, expected {want_attempt} (error, container intact)\n{src}", e.describe())));
                break;
            }
        }
        if parts[2] != "\"ok\"" {
            // Signature of the known finding: an error leaves a bytecode-level loop (for statement or
            // comprehension clause). Builtins that iterate natively release the container on every path.
            let bytecode_loop = !matches!(e.construct, Construct::SortedKey | Construct::MinKey | Construct::MaxKey | Construct::Map | Construct::Filter);
            let class = if matches!(e.exit, Exit::ErrorCaught | Exit::ErrorToHost) && bytecode_loop { "loop-error-exit-keeps-lock" } else { "not-released" };
            fails.push((class.into(), format!("{}: mutation right after the iteration ended gave {} (container still locked); attempts={}\n{src}", e.describe(), parts[2], parts[0])));
        }
    });
    fails
}

fn to_case(e: &Entry, ctx: &Ctx, index: u32) -> CaseResult {
    let mut r = CaseResult::new(format!("{}\n{}", e.describe(), e.source()));
    r.replay = vec![EXH_MAGIC, index];
    for (c, m) in run_entry(e, ctx) {
        r.fail(&c, m);
    }
    if e.nontrivial() {
        r.nontrivial.push(fnv(e.describe().as_bytes()));
    }
    match e.exit {
        Exit::Exhaustion => r.label("exit_exhaustion"),
        Exit::Break => r.label("exit_break"),
        Exit::Continue => r.label("exit_continue"),
        Exit::Return => r.label("exit_return"),
        Exit::ErrorCaught => r.label("exit_error_caught"),
        Exit::ErrorToHost => r.label("exit_error_to_host"),
    }
    r
}

const EXH_MAGIC: u32 = 0xEEEE_EE12;

/// Exploration helper: which (kind, construct, exit) combinations fail, by class.
pub fn distribution() {
    let ctx = crate::engine::make_ctx(&C12, Tier::Quick, 0, 0, 1, true);
    let mut m: std::collections::BTreeMap<String, (u32, u32)> = Default::default();
    for e in all_entries() {
        let f = run_entry(&e, &ctx);
        let k = format!("{:?}/{:?}/{:?}", e.kind, e.construct, e.exit);
        let ent = m.entry(k).or_insert((0, 0));
        ent.0 += 1;
        if !f.is_empty() {
            ent.1 += 1;
        }
    }
    for (k, (n, f)) in m {
        if f > 0 {
            println!("{k}: {f}/{n} fail");
        }
    }
}

impl Prop for C12 {
    fn id(&self) -> &'static str {
        "C12"
    }
    fn cases(&self, tier: Tier) -> u64 {
        match tier {
            Tier::Quick => 2_000,
            Tier::Thorough => 100_000,
        }
    }
    fn choice_len(&self, _tier: Tier) -> (usize, usize) {
        (4, 40)
    }
    fn rule(&self) -> String {
        "Enumerated every run: container kind {list, dict, set} x iterating construct {for, nested for over the same value (attempt inside inner / after inner while the outer runs), three nested loops over three aliases, list comprehension (first clause / inner clause / if clause), dict comprehension, sorted/min/max(key=), map, filter} x every size- or content-changing operation of the kind (methods, item assignment, augmented item assignment, +=, |=) x alias {same name, second name, element of an outer list, captured by a closure, passed as argument} x exit {exhaustion, break, continue, return, error caught inside the program, error returned to the host followed by another evaluation on the same module}. Model: each attempt inside the iteration is an error and str(container) is unchanged; the mutation immediately after the construct ends succeeds. The random part re-samples catalogue entries (proptest) so that shrinking/replay work on single entries. Non-trivial = exit != exhaustion or alias != same name or construct != plain for; distinct = distinct catalogue entry.".into()
    }
    fn assumptions(&self) -> Vec<String> {
        vec!["sorted/min/max(key=), map and filter call the callback while they iterate the container (read from stdlib sources), so the lock is expected to be held during callbacks".into()]
    }
    fn has_exhaustive(&self) -> bool {
        true
    }
    fn exhaustive(&self, ctx: &mut Ctx, sink: &mut dyn FnMut(CaseResult)) {
        for (i, e) in all_entries().iter().enumerate() {
            if i % ctx.workers != ctx.worker {
                continue;
            }
            sink(to_case(e, ctx, i as u32));
        }
    }
    fn run(&self, ctx: &mut Ctx, ch: &mut Choices) -> CaseResult {
        let entries = all_entries();
        let first = ch.raw();
        let idx = if first == EXH_MAGIC { ch.raw() as usize % entries.len() } else { ((first as u64 * entries.len() as u64) >> 32) as usize };
        to_case(&entries[idx], ctx, idx as u32)
    }
    fn known_probe(&self, ctx: &mut Ctx, sig: &str) -> Option<(bool, String)> {
        if sig == "loop-error-exit-keeps-lock" {
            let e = Entry { kind: Kind::List, construct: Construct::For, mutation: 0, alias: Alias::Same, exit: Exit::ErrorToHost };
            let f = run_entry(&e, ctx);
            return Some((!f.is_empty(), "for v in x: fail() inside a def, error returned to the host: a later x.append(7) on the same module is refused (lock never released)".into()));
        }
        None
    }
}
