//! C10 — integer arithmetic is exact at every magnitude (oracle: CPython ints; host conversions: i128 ranges).

use num_bigint::BigInt;
use serde_json::json;
use starlark::values::Heap;
use starlark::values::UnpackValue;
use starlark::values::Value;

use crate::engine::*;
use crate::sl;

pub struct C10;

pub fn grid() -> Vec<BigInt> {
    let mut v: Vec<BigInt> = vec![0.into(), 1.into(), (-1).into(), 2.into(), (-2).into()];
    for k in [7u32, 15, 16, 29, 30, 31, 32, 33, 52, 53, 54, 62, 63, 64, 65, 127, 128] {
        let p = BigInt::from(1) << k;
        for d in [-1i32, 0, 1] {
            v.push(&p + d);
            v.push(-(&p + d));
        }
    }
    v
}

const BIN_OPS: &[&str] = &["+", "-", "*", "//", "%", "&", "|", "^", "==", "!=", "<", "<=", ">", ">="];
const SHIFT_COUNTS: &[i64] = &[0, 1, 2, 30, 31, 32, 33, 62, 63, 64, 65, 100, 127, 300, -1, -2, -64];
const UN_OPS: &[&str] = &["neg", "pos", "inv", "abs", "bool", "str", "hex", "oct", "dec", "float", "int_str"];

fn lit(x: &BigInt) -> String {
    if x.sign() == num_bigint::Sign::Minus { format!("({x})") } else { format!("{x}") }
}

fn may_fail(op: &str) -> bool {
    matches!(op, "//" | "%" | "<<" | ">>")
}

/// One operation instance: (op, a, b?, runtime?).
#[derive(Clone, Debug)]
struct Item {
    op: &'static str,
    a: BigInt,
    b: Option<BigInt>,
    runtime: bool,
}

impl Item {
    fn expr(&self) -> String {
        let w = |x: &BigInt| if self.runtime { format!("opaque({})", lit(x)) } else { lit(x) };
        let a = w(&self.a);
        let e = match (self.op, &self.b) {
            (op, Some(b)) => format!("{a} {op} {}", w(b)),
            ("neg", _) => format!("-{a}"),
            ("pos", _) => format!("+{a}"),
            ("inv", _) => format!("~{a}"),
            ("abs", _) => format!("abs({a})"),
            ("bool", _) => format!("bool({a})"),
            ("str", _) => format!("str({a})"),
            ("hex", _) => format!("\"%x\" % {a}"),
            ("oct", _) => format!("\"%o\" % {a}"),
            ("dec", _) => format!("\"%d\" % {a}"),
            ("float", _) => format!("float({a})"),
            ("int_str", _) => format!("int(str({a}))"),
            _ => unreachable!(),
        };
        if may_fail(self.op) || self.op == "float" { format!("catch(lambda: {e})") } else { e }
    }
    fn py(&self) -> serde_json::Value {
        let op = if self.op == "int_str" { "pos" } else { self.op };
        json!([op, self.a.to_string(), self.b.as_ref().map(|b| b.to_string())])
    }
    fn wrapped(&self) -> bool {
        may_fail(self.op) || self.op == "float"
    }
    fn describe(&self) -> String {
        format!("{} {} {:?} [{}]", self.op, self.a, self.b.as_ref().map(|b| b.to_string()), if self.runtime { "run time" } else { "literal/folded" })
    }
}

fn big(x: &BigInt) -> bool {
    x.bits() >= 31
}

/// Evaluates a batch in one module and compares every result with the oracle.
fn run_batch(ctx: &mut Ctx, items: &[Item], r: &mut CaseResult) {
    if items.is_empty() {
        return;
    }
    let mut src = String::from("r = []\n");
    for it in items {
        src.push_str("r.append(");
        src.push_str(&it.expr());
        src.push_str(")\n");
    }
    src.push_str("r\n");
    let cfg = sl::RunCfg { max_ticks: 100_000_000, ..Default::default() };
    let out = sl::run_src("c10.star", &src, &cfg, &[]);
    let got: Vec<String> = match &out.result {
        Ok(enc) => split_top_level(enc),
        Err(e) => {
            r.fail("int-batch-error", format!("batch evaluation failed: {} ; first item {}", e.msg, items[0].describe()));
            return;
        }
    };
    let want = ctx.oracle().request(&json!({"op": "intops", "items": items.iter().map(|i| i.py()).collect::<Vec<_>>()}));
    let want: Vec<String> = want["results"].as_array().map(|a| a.iter().map(|x| x.as_str().unwrap_or("").to_owned()).collect()).unwrap_or_default();
    if got.len() != items.len() || want.len() != items.len() {
        r.fail("int-batch-error", format!("result count mismatch: got {} want {} items {}", got.len(), want.len(), items.len()));
        return;
    }
    for ((it, g), w) in items.iter().zip(&got).zip(&want) {
        r.evals += 1;
        let expect = if it.wrapped() {
            if w == "ERR" { "(\"err\",".to_owned() } else { format!("(\"ok\",{w},)") }
        } else {
            w.clone()
        };
        let ok = if it.wrapped() && w == "ERR" { g.starts_with(&expect) } else { *g == expect };
        if !ok {
            r.fail("int-op-mismatch", format!("{}: starlark {} , exact {}", it.describe(), truncate(g, 200), truncate(&expect, 200)));
        }
        if big(&it.a) || it.b.as_ref().map(big).unwrap_or(false) || w == "ERR" || w.len() > 10 {
            r.nontrivial.push(fnv(it.describe().as_bytes()));
        }
    }
}

/// Splits the encoding of a list `[a,b,...]` at top level.
pub fn split_top_level(enc: &str) -> Vec<String> {
    let inner = enc.strip_prefix('[').and_then(|s| s.strip_suffix(']')).unwrap_or(enc);
    let mut out = Vec::new();
    let mut depth = 0i32;
    let mut in_str = false;
    let mut esc = false;
    let mut cur = String::new();
    for c in inner.chars() {
        if in_str {
            cur.push(c);
            if esc {
                esc = false;
            } else if c == '\\' {
                esc = true;
            } else if c == '"' {
                in_str = false;
            }
            continue;
        }
        match c {
            '"' => {
                in_str = true;
                cur.push(c);
            }
            '[' | '(' | '{' => {
                depth += 1;
                cur.push(c);
            }
            ']' | ')' | '}' => {
                depth -= 1;
                cur.push(c);
            }
            ',' if depth == 0 => {
                out.push(std::mem::take(&mut cur));
            }
            c => cur.push(c),
        }
    }
    if !cur.is_empty() {
        out.push(cur);
    }
    out
}

fn rand_big(ch: &mut Choices) -> BigInt {
    match ch.weighted(&[3, 4, 3]) {
        0 => {
            let g = grid();
            g[ch.idx(g.len())].clone()
        }
        1 => {
            // random magnitude up to 256 bits with random low/high patterns
            let bits = 1 + ch.below(256) as u64;
            let mut x = BigInt::from(0);
            for _ in 0..((bits + 31) / 32) {
                let w = match ch.below(4) {
                    0 => 0u32,
                    1 => u32::MAX,
                    _ => ch.raw(),
                };
                x = (x << 32) | BigInt::from(w);
            }
            x = x & ((BigInt::from(1) << bits) - 1);
            if ch.bool() { -x } else { x }
        }
        _ => {
            let k = ch.below(130);
            let d = ch.range(-3, 3);
            let x = (BigInt::from(1) << k) + d;
            if ch.bool() { -x } else { x }
        }
    }
}

fn host_checks(r: &mut CaseResult, xs: &[BigInt]) {
    Heap::temp(|heap| {
        for x in xs {
            // allocate through every fixed-width type that can represent it, and through BigInt
            let mut vals: Vec<(&str, Value)> = vec![("BigInt", heap.alloc(x.clone()))];
            if let Ok(v) = i32::try_from(x) {
                vals.push(("i32", heap.alloc(v)));
            }
            if let Ok(v) = i64::try_from(x) {
                vals.push(("i64", heap.alloc(v)));
                vals.push(("isize", heap.alloc(v as isize)));
            }
            if let Ok(v) = u32::try_from(x) {
                vals.push(("u32", heap.alloc(v)));
            }
            if let Ok(v) = u64::try_from(x) {
                vals.push(("u64", heap.alloc(v)));
                vals.push(("usize", heap.alloc(v as usize)));
            }
            for (how, v) in vals {
                r.evals += 1;
                if v.to_str() != x.to_string() {
                    r.fail("host-alloc", format!("heap.alloc({x} as {how}) prints {}", v.to_str()));
                }
                macro_rules! chk {
                    ($t:ty) => {{
                        let want: Option<$t> = <$t>::try_from(x).ok();
                        let got: Option<$t> = match <$t as UnpackValue>::unpack_value(v) {
                            Ok(o) => o,
                            Err(_) => None, // a clean failure is allowed when the target cannot hold it
                        };
                        if got != want {
                            r.fail("host-unpack", format!("{}::unpack_value({x} allocated as {how}) = {:?}, exact {:?}", stringify!($t), got, want));
                        }
                    }};
                }
                chk!(i32);
                chk!(i64);
                chk!(u32);
                chk!(u64);
                chk!(usize);
                chk!(isize);
                let gb = <BigInt as UnpackValue>::unpack_value(v).ok().flatten();
                if gb.as_ref() != Some(x) {
                    r.fail("host-unpack", format!("BigInt::unpack_value({x} allocated as {how}) = {:?}", gb));
                }
                if big(x) {
                    r.nontrivial.push(fnv(format!("host {x} {how}").as_bytes()));
                }
            }
        }
    });
}

fn parse_int_checks(ctx: &mut Ctx, ch: &mut Choices, r: &mut CaseResult, n: usize) {
    const DIGITS: &[u8] = b"0123456789abcdefghijklmnopqrstuvwxyz";
    let mut items: Vec<(String, Option<u32>)> = Vec::new();
    for _ in 0..n {
        let base = 2 + ch.below(35);
        let maxlen = if ch.chance(1, 4) { 70 } else { 12 };
        let len = 1 + ch.idx(maxlen);
        let mut s = String::new();
        match ch.below(4) {
            0 => s.push('-'),
            1 => s.push('+'),
            _ => {}
        }
        if ch.chance(1, 4) {
            match base {
                16 => s.push_str(*ch.pick(&["0x", "0X"])),
                8 => s.push_str(*ch.pick(&["0o", "0O"])),
                2 => s.push_str(*ch.pick(&["0b", "0B"])),
                _ => {}
            }
        }
        let bad = ch.chance(1, 6);
        for i in 0..len {
            let d = if bad && i == len / 2 && base < 36 { base + ch.below(36 - base) } else { ch.below(base) };
            let c = DIGITS[d as usize] as char;
            s.push(if ch.chance(1, 5) { c.to_ascii_uppercase() } else { c });
        }
        let with_base = if base == 10 && ch.bool() { None } else { Some(base) };
        items.push((s, with_base));
    }
    let mut src = String::from("r = []\n");
    for (s, b) in &items {
        match b {
            Some(b) => src.push_str(&format!("r.append(catch(lambda: int(opaque({}), {b})))\n", crate::prog::str_lit(s))),
            None => src.push_str(&format!("r.append(catch(lambda: int(opaque({}))))\n", crate::prog::str_lit(s))),
        }
    }
    src.push_str("r\n");
    let out = sl::run_src("c10p.star", &src, &sl::RunCfg::default(), &[]);
    let Ok(enc) = &out.result else {
        r.fail("int-batch-error", format!("int() batch failed: {:?}", out.result));
        return;
    };
    let got = split_top_level(enc);
    let want = ctx.oracle().request(&json!({"op": "parse_int", "items": items.iter().map(|(s, b)| json!([s, b])).collect::<Vec<_>>()}));
    let want: Vec<String> = want["results"].as_array().map(|a| a.iter().map(|x| x.as_str().unwrap_or("").to_owned()).collect()).unwrap_or_default();
    for (((s, b), g), w) in items.iter().zip(&got).zip(&want) {
        r.evals += 1;
        let ok = if w == "ERR" { g.starts_with("(\"err\",") } else { *g == format!("(\"ok\",{w},)") };
        if !ok {
            r.fail("int-parse-mismatch", format!("int({s:?}, {b:?}): starlark {} , exact {w}", truncate(g, 120)));
        }
        if s.len() > 10 || w == "ERR" {
            r.nontrivial.push(fnv(format!("parse {s} {b:?}").as_bytes()));
        }
    }
}

fn float_checks(ctx: &mut Ctx, ch: &mut Choices, r: &mut CaseResult, n: usize) {
    // int(float): floats on the integer grid, halves, extremes
    let mut fl: Vec<f64> = Vec::new();
    for _ in 0..n {
        let f = match ch.below(5) {
            0 => {
                let k = ch.below(130) as i32;
                let s = if ch.bool() { -1.0 } else { 1.0 };
                s * 2f64.powi(k) + *ch.pick(&[0.0, 0.5, -0.5, 1.0, -1.0])
            }
            1 => *ch.pick(&[0.0, -0.0, 0.5, -0.5, 1e300, -1e300, 2147483647.5, -2147483648.5, 9007199254740993.0, 1e19, 4294967296.0]),
            2 => f64::from_bits(ch.u64()),
            3 => (ch.raw() as f64) * 1e-3 * if ch.bool() { -1.0 } else { 1.0 },
            _ => *ch.pick(&[f64::INFINITY, f64::NEG_INFINITY, f64::NAN]),
        };
        fl.push(f);
    }
    let mut src = String::from("r = []\n");
    for f in &fl {
        let text = if f.is_nan() { "float(\"nan\")".to_owned() } else if f.is_infinite() { format!("float(\"{}inf\")", if *f < 0.0 { "-" } else { "" }) } else { format!("float(\"{f:e}\")") };
        src.push_str(&format!("r.append(catch(lambda: int(opaque({text}))))\n"));
    }
    src.push_str("r\n");
    let out = sl::run_src("c10f.star", &src, &sl::RunCfg::default(), &[]);
    let Ok(enc) = &out.result else {
        r.fail("int-batch-error", format!("int(float) batch failed: {:?}", out.result));
        return;
    };
    let got = split_top_level(enc);
    let want = ctx.oracle().request(&json!({"op": "int_float", "items": fl.iter().map(|f| json!(["int_of_float", format!("{:016x}", f.to_bits())])).collect::<Vec<_>>()}));
    let want: Vec<String> = want["results"].as_array().map(|a| a.iter().map(|x| x.as_str().unwrap_or("").to_owned()).collect()).unwrap_or_default();
    for ((f, g), w) in fl.iter().zip(&got).zip(&want) {
        r.evals += 1;
        let ok = if w == "ERR" { g.starts_with("(\"err\",") } else { *g == format!("(\"ok\",{w},)") };
        if !ok {
            r.fail("int-of-float-mismatch", format!("int({f:e}): starlark {} , exact {w}", truncate(g, 120)));
        }
        if f.abs() >= 2147483648.0 || w == "ERR" {
            r.nontrivial.push(fnv(format!("int_of_float {:x}", f.to_bits()).as_bytes()));
        }
    }
}

impl Prop for C10 {
    fn id(&self) -> &'static str {
        "C10"
    }
    fn cases(&self, tier: Tier) -> u64 {
        match tier {
            Tier::Quick => 1_600,
            Tier::Thorough => 60_000,
        }
    }
    fn choice_len(&self, _tier: Tier) -> (usize, usize) {
        (40, 1200)
    }
    fn rule(&self) -> String {
        "Enumerated part (every run): all ordered pairs of the 107-value boundary grid (0, +-1, +-2, +-(2^k-1), +-2^k, +-(2^k+1), k in {7,15,16,29..33,52..54,62..65,127,128}) x 14 binary operators x {literal operands (compile-time folding), opaque() operands (run time)}, shifts of every grid value by 17 counts (incl. negative) and right shifts by 32 counts around 2^32..2^100, 11 unary/conversion/format operations per grid value, host alloc/unpack for i32/i64/u32/u64/usize/isize/BigInt. Random part: batches of operations on operands up to 256 bits, int(str, base) for bases 2..36 with signs/prefixes/invalid digits, int(float) on boundary floats. Oracle: CPython integers (independent of num-bigint); i128/BigInt range arithmetic for host conversions. evaluations = individual operation results compared. Non-trivial = an operand or the result is outside the 32-bit inline range, or the operation must fail; distinct = distinct (op, operands, mode).".into()
    }
    fn assumptions(&self) -> Vec<String> {
        vec!["CPython int semantics are the mathematical reference (floor // and %, errors for zero divisor and negative shift)".into(), "left-shift counts are bounded by 300 (right-shift counts go up to 2^100); float(int) beyond f64 range may fail (compared with CPython OverflowError)".into()]
    }
    fn has_exhaustive(&self) -> bool {
        true
    }
    fn exhaustive(&self, ctx: &mut Ctx, sink: &mut dyn FnMut(CaseResult)) {
        let g = grid();
        let n = g.len();
        let mut batch: Vec<Item> = Vec::new();
        let mut idx = 0usize;
        let flush = |ctx: &mut Ctx, batch: &mut Vec<Item>, sink: &mut dyn FnMut(CaseResult)| {
            if batch.is_empty() {
                return;
            }
            let mut r = CaseResult::new(format!("[enumerated grid batch] first: {} ; last: {} ; {} operations", batch[0].describe(), batch[batch.len() - 1].describe(), batch.len()));
            r.evals = 0;
            run_batch(ctx, batch, &mut r);
            batch.clear();
            sink(r);
        };
        for i in 0..n {
            for j in 0..n {
                idx += 1;
                if idx % ctx.workers != ctx.worker {
                    continue;
                }
                for op in BIN_OPS {
                    for runtime in [false, true] {
                        batch.push(Item { op, a: g[i].clone(), b: Some(g[j].clone()), runtime });
                    }
                }
                if batch.len() >= 4000 {
                    flush(ctx, &mut batch, sink);
                }
            }
        }
        for i in 0..n {
            idx += 1;
            if idx % ctx.workers != ctx.worker {
                continue;
            }
            for runtime in [false, true] {
                for c in SHIFT_COUNTS {
                    for op in ["<<", ">>"] {
                        batch.push(Item { op, a: g[i].clone(), b: Some(BigInt::from(*c)), runtime });
                    }
                }
                // right shifts by counts that are themselves beyond 32 and 64 bits (result 0 or -1; left shifts by such
                // counts would be astronomically large values and are not part of the domain)
                for k in [32u32, 33, 40, 53, 63, 64, 65, 100] {
                    for d in [0i32, 1, 8, -1] {
                        let c = (BigInt::from(1) << k) + d;
                        batch.push(Item { op: ">>", a: g[i].clone(), b: Some(c), runtime });
                    }
                }
                for op in UN_OPS {
                    batch.push(Item { op, a: g[i].clone(), b: None, runtime });
                }
            }
        }
        flush(ctx, &mut batch, sink);
        if ctx.worker == 0 {
            let mut r = CaseResult::new("[enumerated host conversions over the grid]".into());
            r.evals = 0;
            host_checks(&mut r, &g);
            sink(r);
        }
    }
    fn run(&self, ctx: &mut Ctx, ch: &mut Choices) -> CaseResult {
        let mut r = CaseResult::new(String::new());
        r.evals = 0;
        let mut items = Vec::new();
        let n = 30 + ch.idx(40);
        for _ in 0..n {
            let a = rand_big(ch);
            let runtime = ch.bool();
            match ch.below(10) {
                0..=6 => {
                    let op = *ch.pick(BIN_OPS);
                    let b = rand_big(ch);
                    items.push(Item { op, a, b: Some(b), runtime });
                }
                7 => {
                    let op = *ch.pick(&["<<", ">>"]);
                    let c = if ch.chance(1, 6) { -(ch.range(1, 70)) } else { ch.range(0, 300) };
                    items.push(Item { op, a, b: Some(BigInt::from(c)), runtime });
                }
                _ => {
                    let op = *ch.pick(UN_OPS);
                    items.push(Item { op, a, b: None, runtime });
                }
            }
        }
        r.sample = format!("[random batch of {}] e.g. {} ; {} ; {}", items.len(), items[0].describe(), items[items.len() / 2].describe(), items[items.len() - 1].describe());
        run_batch(ctx, &items, &mut r);
        parse_int_checks(ctx, ch, &mut r, 12);
        float_checks(ctx, ch, &mut r, 10);
        let xs: Vec<BigInt> = (0..6).map(|_| rand_big(ch)).collect();
        host_checks(&mut r, &xs);
        if r.fails.is_empty() {
            r.label("batch_ok");
        }
        r
    }
}
