//! C05 — parsing is total; error spans and every AST span are well formed; dialect monotonicity.

use starlark::syntax::AstModule;
use starlark::syntax::Dialect;
use starlark::syntax::DialectTypes;
use starlark_syntax::codemap::CodeMap;
use starlark_syntax::lexer::Lexer;
use starlark_syntax::lexer::Token;

use crate::astx::Walk;
use crate::astx::span_in_file;
use crate::engine::*;
use crate::textgen;
use crate::textgen::NestKind;

pub struct C05;

pub fn gen_dialect(ch: &mut Choices) -> Dialect {
    // raw 0 -> everything enabled (the simplest / most permissive), as in AllOptionsInternal
    let mut d = Dialect::AllOptionsInternal;
    if ch.chance(1, 2) {
        match ch.below(4) {
            0 => return Dialect::Standard,
            1 => return Dialect::Extended,
            2 => return Dialect::AllOptionsInternal,
            _ => {}
        }
        d.enable_def = ch.bool();
        d.enable_lambda = ch.bool();
        d.enable_load = ch.bool();
        d.enable_keyword_only_arguments = ch.bool();
        d.enable_positional_only_arguments = ch.bool();
        d.enable_types = *ch.pick(&[DialectTypes::Enable, DialectTypes::ParseOnly, DialectTypes::Disable]);
        d.enable_load_reexport = ch.bool();
        d.enable_top_level_stmt = ch.bool();
        d.enable_f_strings = ch.bool();
    }
    d
}

pub fn dialect_str(d: &Dialect) -> String {
    format!(
        "def={} lambda={} load={} kwonly={} posonly={} types={:?} reexport={} toplevel={} fstr={}",
        d.enable_def as u8,
        d.enable_lambda as u8,
        d.enable_load as u8,
        d.enable_keyword_only_arguments as u8,
        d.enable_positional_only_arguments as u8,
        d.enable_types,
        d.enable_load_reexport as u8,
        d.enable_top_level_stmt as u8,
        d.enable_f_strings as u8
    )
}

fn types_rank(t: &DialectTypes) -> u8 {
    match t {
        DialectTypes::Disable => 0,
        DialectTypes::ParseOnly => 1,
        DialectTypes::Enable => 2,
    }
}

/// A dialect that enables at least everything `d` enables.
fn widen(ch: &mut Choices, d: &Dialect) -> Dialect {
    let mut w = d.clone();
    w.enable_def |= ch.bool();
    w.enable_lambda |= ch.bool();
    w.enable_load |= ch.bool();
    w.enable_keyword_only_arguments |= ch.bool();
    w.enable_positional_only_arguments |= ch.bool();
    let t = *ch.pick(&[DialectTypes::Enable, DialectTypes::ParseOnly, DialectTypes::Disable]);
    if types_rank(&t) > types_rank(&w.enable_types) {
        w.enable_types = t;
    }
    w.enable_load_reexport |= ch.bool();
    w.enable_top_level_stmt |= ch.bool();
    w.enable_f_strings |= ch.bool();
    w
}

pub fn count_tokens(src: &str) -> usize {
    let cm = CodeMap::new("t".to_owned(), src.to_owned());
    Lexer::new(src, &Dialect::AllOptionsInternal, cm)
        .take(100_000)
        .filter(|t| !matches!(t, Ok((_, Token::Newline | Token::Indent | Token::Dedent, _))))
        .count()
}

/// Runs `f` on a thread with a very large (lazily committed) stack: used for the harness's own
/// recursive walkers over deep trees so that a harness overflow is never mistaken for a parser crash.
pub fn on_big_stack<R: Send>(f: impl FnOnce() -> R + Send) -> R {
    std::thread::scope(|s| {
        std::thread::Builder::new().stack_size(2usize << 30).spawn_scoped(s, f).expect("spawn big-stack thread").join().expect("big-stack thread panicked")
    })
}

pub struct ParseCheck {
    pub ok: bool,
    pub problems: Vec<String>,
    pub sexp_spans: Option<String>,
    pub err_begin: u32,
    pub nodes: usize,
    pub depth: usize,
}

/// The validity predicate of C05 for one (text, dialect).
pub fn check_parse(src: &str, dialect: &Dialect, want_sexp: bool) -> ParseCheck {
    let res = AstModule::parse("c05.star", src.to_owned(), dialect);
    match res {
        Err(e) => {
            let mut problems = Vec::new();
            let msg = format!("{}", e.without_diagnostic());
            if msg.trim().is_empty() {
                problems.push("error with an empty message".to_owned());
            }
            let mut err_begin = 0;
            match e.span() {
                None => problems.push(format!("error without a span: {msg}")),
                Some(fs) => {
                    err_begin = fs.span.begin().get();
                    if fs.file.source() != src {
                        problems.push("error span refers to a different source".to_owned());
                    } else if !span_in_file(src, fs.span) {
                        problems.push(format!("error span {}..{} outside the file (len {}) or not on char boundaries; message: {msg}", fs.span.begin().get(), fs.span.end().get(), src.len()));
                    }
                }
            }
            // Display of the error (renders the span) must not panic either.
            let shown = format!("{e}");
            if shown.is_empty() {
                problems.push("empty Display for error".to_owned());
            }
            ParseCheck { ok: false, problems, sexp_spans: None, err_begin, nodes: 0, depth: 0 }
        }
        Ok(ast) => {
            let work = move || {
                let mut w = Walk::new(src, true, true);
                w.module(ast.statement());
                for c in ast.comments() {
                    if !span_in_file(src, *c) {
                        w.problems.push(format!("comment span {}..{} outside file", c.begin().get(), c.end().get()));
                    } else if !src[c.begin().get() as usize..].starts_with('#') {
                        w.problems.push(format!("comment span {}..{} does not start at '#'", c.begin().get(), c.end().get()));
                    }
                }
                let r = ParseCheck { ok: true, problems: w.problems, sexp_spans: if want_sexp { Some(w.out) } else { None }, err_begin: 0, nodes: w.nodes, depth: w.max_depth };
                drop(ast);
                r
            };
            if src.len() > 1500 { on_big_stack(work) } else { work() }
        }
    }
}

fn gen_case(ctx: &Ctx, ch: &mut Choices) -> (String, &'static str, Dialect, Dialect, u64) {
    let family = ch.weighted(&[24, 16, 8, 30, 10, 12]);
    let mut excluded = 0u64;
    let (src, fam): (String, &'static str) = match family {
        0 => (textgen::soup(ch, 60), "soup"),
        1 => (textgen::lexcorner(ch), "lexcorner"),
        2 => (textgen::raw_bytes(ch, 200), "rawbytes"),
        3 => {
            let progs = crate::corpus::programs();
            let base = &progs[ch.idx(progs.len())];
            (textgen::mutate(ch, base), "mutated")
        }
        4 => {
            let kind = *ch.pick(textgen::NEST_KINDS);
            let d = if kind.is_bracket_nesting() {
                1 + ch.idx(200)
            } else {
                // flat chains: mostly small, sometimes up to the size bound
                let unit = textgen::nest(kind, 2).len() - textgen::nest(kind, 1).len();
                let max = (65_000 / unit.max(1)).max(1);
                let mut d = if ch.chance(1, 4) { 1 + ch.idx(max) } else { 1 + ch.idx(300) };
                if let Some(limit) = flat_limit(ctx, kind) {
                    if d > limit {
                        excluded += 1;
                        d = limit;
                    }
                }
                d
            };
            (textgen::nest(kind, d), "nesting")
        }
        _ => {
            let progs = crate::corpus::programs();
            (progs[ch.idx(progs.len())].clone(), "corpus")
        }
    };
    let mut src = src;
    // file-level decorations: what may sit before the first token or after the last one
    if ch.chance(1, 5) {
        let pre = *ch.pick(&["\u{feff}", "\u{feff}\u{feff}", "\n", "\r\n", "\r", " ", "\t", "\u{c}", "#!/usr/bin/env starlark\n", "# é\n", "\u{feff}# c\n", "\\\n", "\u{a0}", "\u{2028}", "\u{0}", "\n\n  \n", ";", "\u{feff}\n"]);
        src = format!("{pre}{src}");
    }
    if ch.chance(1, 8) {
        let post = *ch.pick(&["\u{feff}", "\r", "\\", "\u{c}", "  ", "\t", "# no newline", "\u{0}", "\n\u{feff}", "\u{2029}", ";"]);
        src.push_str(post);
    }
    if src.len() > 65536 {
        let mut cut = 65536;
        while !src.is_char_boundary(cut) {
            cut -= 1;
        }
        src.truncate(cut);
    }
    let d = gen_dialect(ch);
    let wide = widen(ch, &d);
    (src, fam, d, wide, excluded)
}

impl Prop for C05 {
    fn id(&self) -> &'static str {
        "C05"
    }
    fn timeout(&self, tier: Tier) -> std::time::Duration {
        match tier {
            Tier::Quick => std::time::Duration::from_secs(2700),
            Tier::Thorough => std::time::Duration::from_secs(6 * 3600),
        }
    }
    fn cases(&self, tier: Tier) -> u64 {
        match tier {
            Tier::Quick => 70_000,
            Tier::Thorough => 6_000_000,
        }
    }
    fn choice_len(&self, _tier: Tier) -> (usize, usize) {
        (4, 300)
    }
    fn rule(&self) -> String {
        "Case = (text, dialect D, wider dialect D'). Text families: token soup with indentation shapes; lexer corner-case statements (CR/LF/CRLF, tabs, continuation, every escape form, raw/bytes/f-string prefixes, triple quotes, unterminated forms, multi-byte characters); raw bytes -> lossy UTF-8; token/byte mutations of the repository's own .star/.bzl/golden programs; nesting families (bracket/indent/call depth 1..200; flat chains up to the 64 KiB bound). Oracle: validity predicate (Ok/Err, no panic/abort; error message+span in file on char boundaries; every AST span in file, on char boundaries, inside parent; identifier spans spell the identifier; literal spans re-lex to exactly that literal) plus dialect monotonicity (parse_D ok => parse_D' ok with identical span-annotated S-expression). Non-trivial = >= 8 tokens and (parses, or fails after the first token, or contains a multi-byte character); distinct = distinct text+dialect.".into()
    }
    fn assumptions(&self) -> Vec<String> {
        vec![
            "worker thread stack 16 MiB (twice the Linux default); the harness's own recursive walkers run on a separate 2 GiB stack".into(),
            "load(...) local names deliberately carry the string literal's span (exempt from 'spells the identifier')".into(),
        ]
    }
    fn floors(&self) -> Vec<(&'static str, f64)> {
        vec![("parse_ok", 0.12), ("non_ascii", 0.12), ("string_corner", 0.08), ("mono_checked", 0.08)]
    }
    fn run(&self, ctx: &mut Ctx, ch: &mut Choices) -> CaseResult {
        let (src, fam, d, wide, excluded) = gen_case(ctx, ch);
        let mut r = CaseResult::new(format!("[{fam}] dialect({}) text={:?}", dialect_str(&d), truncate(&src, 400)));
        r.excluded_known = excluded;
        r.label(fam);
        let pc = check_parse(&src, &d, true);
        r.evals = 1;
        for p in &pc.problems {
            r.fail(if pc.ok { "ast-span" } else { "error-span" }, format!("{p}\ntext={src:?}"));
        }
        if pc.ok {
            r.label("parse_ok");
            // monotonicity
            let pw = check_parse(&src, &wide, true);
            r.evals += 1;
            r.label("mono_checked");
            if !pw.ok {
                r.fail("dialect-monotonicity", format!("accepted under ({}) but rejected under the wider ({})\ntext={src:?}", dialect_str(&d), dialect_str(&wide)));
            } else if pw.sexp_spans != pc.sexp_spans {
                r.fail("dialect-monotonicity", format!("tree differs between ({}) and the wider ({})\ntext={src:?}", dialect_str(&d), dialect_str(&wide)));
            }
            for p in &pw.problems {
                r.fail("ast-span", format!("{p} [dialect {}]\ntext={src:?}", dialect_str(&wide)));
            }
        }
        let non_ascii = !src.is_ascii();
        if non_ascii {
            r.label("non_ascii");
        }
        if src.contains("\"\"\"") || src.contains("'''") || src.contains("f\"") || src.contains("b\"") || src.contains("r\"") || src.contains("\\x") || src.contains("\\u") {
            r.label("string_corner");
        }
        if src.contains('\r') {
            r.label("has_cr");
        }
        if src.contains('\t') {
            r.label("has_tab");
        }
        let ntok = count_tokens(&src);
        if ntok >= 8 && (pc.ok || pc.err_begin > 0 || non_ascii) {
            let dg = fnv(format!("{}|{src}", dialect_str(&d)).as_bytes());
            r.nontrivial.push(dg);
        }
        r
    }
    fn render(&self, ctx: &mut Ctx, ch: &mut Choices) -> String {
        let (src, fam, d, _, _) = gen_case(ctx, ch);
        format!("[{fam}] dialect({}) len={} text={:?}", dialect_str(&d), src.len(), truncate(&src, 300))
    }
    fn known_probe(&self, _ctx: &mut Ctx, sig: &str) -> Option<(bool, String)> {
        if sig == SIG_UNARY_CHAIN {
            // Crashes the process (stack overflow) while the finding is open.
            let src = textgen::nest(NestKind::PrefixTilde, 32_000);
            let r = AstModule::parse("probe.star", src, &Dialect::AllOptionsInternal);
            let _ = r.is_ok();
            return Some((false, "unary prefix chain of 64000 operators parsed without a crash".into()));
        }
        None
    }
}

pub const SIG_UNARY_CHAIN: &str = "unary-prefix-chain-overflow";
/// While the finding is open, unary prefix chains are generated only up to this length (the crash
/// threshold measured on the unchanged tree is between 32 000 and 64 000 on the 16 MiB worker stack).
const UNARY_CHAIN_SAFE: usize = 12_000;

/// Depth limit for flat chains while a crash finding on them is open (exclusion by construction).
fn flat_limit(ctx: &Ctx, kind: NestKind) -> Option<usize> {
    match kind {
        NestKind::PrefixMinus | NestKind::PrefixTilde if ctx.is_open(SIG_UNARY_CHAIN) => Some(UNARY_CHAIN_SAFE),
        _ => None,
    }
}
