//! C06 — the parser builds the tree the grammar prescribes (vs CPython's ast on the shared grammar),
//! and printing a parsed module round-trips.

use serde_json::json;
use starlark::syntax::AstModule;
use starlark::syntax::Dialect;
use starlark::syntax::DialectTypes;

use crate::astx::Walk;
use crate::engine::*;
use crate::prog;
use crate::textgen;

pub struct C06;

fn shared_dialect() -> Dialect {
    let mut d = Dialect::AllOptionsInternal;
    d.enable_types = DialectTypes::Disable;
    d.enable_f_strings = false;
    d.enable_positional_only_arguments = false;
    d
}

pub fn sexp_of(src: &str, dialect: &Dialect) -> Result<String, String> {
    match AstModule::parse("c06.star", src.to_owned(), dialect) {
        Ok(ast) => {
            let work = move || {
                let mut w = Walk::new(src, false, false);
                w.normalize = true;
                w.module(ast.statement());
                w.out
            };
            Ok(if src.len() > 1500 { crate::props::c05::on_big_stack(work) } else { work() })
        }
        Err(e) => Err(format!("{}", e.without_diagnostic())),
    }
}

// ---- grammar-directed generation over the shared token alphabet ---------------------------------

const BIN: &[&str] = &["or", "and", "==", "!=", "<", ">", "<=", ">=", "in", "not in", "|", "^", "&", "<<", ">>", "+", "-", "*", "%", "/", "//"];
const UN: &[&str] = &["-", "+", "~", "not "];
const NAMES: &[&str] = &["a", "b", "c", "x", "y", "f", "g", "True", "None"];

struct G<'a, 'c> {
    ch: &'a mut Choices<'c>,
    ops: Vec<&'static str>,
}

impl<'a, 'c> G<'a, 'c> {
    fn atom(&mut self) -> String {
        match self.ch.below(8) {
            0 | 1 | 2 => (*self.ch.pick(NAMES)).to_owned(),
            3 => format!("{}", self.ch.below(100)),
            4 => (*self.ch.pick(&["\"s\"", "'t'", "\"\"", "1.5", "0x1F", "0o7", "r\"a\\b\""])).to_owned(),
            5 => format!("({})", self.expr(2)),
            6 => {
                let n = self.ch.idx(3);
                let items: Vec<String> = (0..n).map(|_| self.expr(2)).collect();
                let trail = if n > 0 && self.ch.bool() { "," } else { "" };
                match self.ch.below(3) {
                    0 => format!("[{}{trail}]", items.join(", ")),
                    1 => format!("({}{})", items.join(", "), if n == 1 { "," } else { trail }),
                    _ => format!("{{{}{trail}}}", items.iter().map(|i| format!("{i}: {i}")).collect::<Vec<_>>().join(", ")),
                }
            }
            _ => {
                // comprehension
                let body = self.expr(2);
                let mut cl = format!("for {} in {}", self.target(), self.expr_no_ternary(2));
                for _ in 0..self.ch.idx(3) {
                    if self.ch.bool() {
                        cl.push_str(&format!(" for {} in {}", self.target(), self.expr_no_ternary(2)));
                    } else {
                        cl.push_str(&format!(" if {}", self.expr_no_ternary(2)));
                    }
                }
                if self.ch.bool() { format!("[{body} {cl}]") } else { format!("{{{body}: {body} {cl}}}") }
            }
        }
    }

    fn target(&mut self) -> String {
        match self.ch.below(5) {
            0 | 1 | 2 => (*self.ch.pick(&["i", "j", "k"])).to_owned(),
            3 => "i, j".to_owned(),
            _ => "(i, (j, k))".to_owned(),
        }
    }

    fn primary(&mut self, depth: u32) -> String {
        let mut e = self.atom();
        for _ in 0..self.ch.idx(3) {
            match self.ch.below(6) {
                0 => e = format!("{e}.{}", self.ch.pick_s(&["m", "attr", "x"])),
                1 => e = format!("{e}({})", self.args(depth)),
                2 => e = format!("{e}[{}]", self.expr(depth + 1)),
                3 => {
                    let mut part = |g: &mut G| if g.ch.bool() { g.expr(depth + 1) } else { String::new() };
                    let (a, b) = (part(self), part(self));
                    if self.ch.bool() {
                        let c = part(self);
                        e = format!("{e}[{a}:{b}:{c}]");
                    } else {
                        e = format!("{e}[{a}:{b}]");
                    }
                }
                _ => {}
            }
        }
        e
    }

    fn args(&mut self, depth: u32) -> String {
        let mut parts: Vec<String> = Vec::new();
        for _ in 0..self.ch.idx(3) {
            parts.push(self.expr(depth + 1));
        }
        for _ in 0..self.ch.idx(3) {
            parts.push(format!("{}={}", self.ch.pick_s(&["k", "key", "x"]), self.expr(depth + 1)));
        }
        if self.ch.chance(1, 4) {
            parts.push(format!("*{}", self.expr(depth + 1)));
        }
        if self.ch.chance(1, 4) {
            parts.push(format!("**{}", self.expr(depth + 1)));
        }
        let trail = if !parts.is_empty() && self.ch.chance(1, 4) { "," } else { "" };
        format!("{}{trail}", parts.join(", "))
    }

    fn unary(&mut self, depth: u32) -> String {
        if self.ch.chance(1, 4) {
            let u = *self.ch.pick(UN);
            self.ops.push(u);
            format!("{u}{}", self.unary(depth))
        } else {
            self.primary(depth)
        }
    }

    /// Operator chain WITHOUT parentheses: grouping is decided by the parser under test.
    fn expr_no_ternary(&mut self, depth: u32) -> String {
        let mut e = self.unary(depth);
        if depth < 4 {
            for _ in 0..self.ch.idx(4) {
                let op = *self.ch.pick(BIN);
                self.ops.push(op);
                let r = self.unary(depth + 1);
                e = format!("{e} {op} {r}");
            }
        }
        e
    }

    fn expr(&mut self, depth: u32) -> String {
        if depth < 4 && self.ch.chance(1, 8) {
            self.ops.push("ifexp");
            let (a, c, b) = (self.expr_no_ternary(depth + 1), self.expr_no_ternary(depth + 1), self.expr(depth + 1));
            return format!("{a} if {c} else {b}");
        }
        if depth < 4 && self.ch.chance(1, 10) {
            self.ops.push("lambda");
            let ps = *self.ch.pick(&["", "p", "p, q", "p, q=1", "*a", "p, *a, **k", "**k", "p=1, *, q", "*, q=2"]);
            let body = self.expr(depth + 1);
            return format!("lambda {ps}: {body}");
        }
        self.expr_no_ternary(depth)
    }

    fn params(&mut self) -> String {
        (*self.ch.pick(&["", "a", "a, b", "a, b=1", "a=1, b=2", "*args", "a, *args", "a, *args, k", "a, *, k", "a, *, k=1, j", "**kw", "a, b=2, *args, k=3, **kw", "a, *, k, **kw", "a,", "a, b=1,", "*args,", "**kw,"])).to_owned()
    }

    fn simple_stmt(&mut self) -> String {
        match self.ch.below(9) {
            0 | 1 => self.expr(0),
            2 | 3 => {
                let t = match self.ch.below(6) {
                    0 => "x".to_owned(),
                    1 => "x, y".to_owned(),
                    2 => "(x, y)".to_owned(),
                    3 => "[x, y]".to_owned(),
                    4 => format!("x[{}]", self.expr(2)),
                    _ => "x.attr".to_owned(),
                };
                let rhs = if self.ch.chance(1, 4) { format!("{}, {}", self.expr(1), self.expr(1)) } else { self.expr(0) };
                format!("{t} = {rhs}")
            }
            4 => {
                let op = *self.ch.pick(&["+=", "-=", "*=", "/=", "//=", "%=", "&=", "|=", "^=", "<<=", ">>="]);
                let t = *self.ch.pick(&["x", "x[0]", "x.attr"]);
                format!("{t} {op} {}", self.expr(0))
            }
            5 => "pass".to_owned(),
            6 => format!("return {}", self.expr(0)),
            7 => (*self.ch.pick(&["break", "continue", "return"])).to_owned(),
            _ => format!("{}; {}", self.expr(1), self.expr(1)),
        }
    }

    fn block(&mut self, indent: usize, depth: u32, out: &mut String, in_def: bool, in_loop: bool) {
        let n = 1 + self.ch.idx(3);
        for _ in 0..n {
            self.stmt(indent, depth, out, in_def, in_loop);
        }
    }

    fn stmt(&mut self, indent: usize, depth: u32, out: &mut String, in_def: bool, in_loop: bool) {
        let pad = " ".repeat(indent);
        let step = *self.ch.pick(&[1usize, 2, 4, 8]);
        let kind = if depth >= 3 { 0 } else { self.ch.below(8) };
        match kind {
            0..=3 => {
                let mut s = self.simple_stmt();
                if (!in_def && s.starts_with("return")) || (!in_loop && (s == "break" || s == "continue")) {
                    s = "pass".to_owned();
                }
                out.push_str(&format!("{pad}{s}\n"));
            }
            4 => {
                out.push_str(&format!("{pad}if {}:\n", self.expr(1)));
                self.block(indent + step, depth + 1, out, in_def, in_loop);
                for _ in 0..self.ch.idx(3) {
                    out.push_str(&format!("{pad}elif {}:\n", self.expr(1)));
                    self.block(indent + step, depth + 1, out, in_def, in_loop);
                }
                if self.ch.bool() {
                    out.push_str(&format!("{pad}else:\n"));
                    self.block(indent + step, depth + 1, out, in_def, in_loop);
                }
            }
            5 => {
                out.push_str(&format!("{pad}for {} in {}:\n", self.target(), self.expr(1)));
                self.block(indent + step, depth + 1, out, in_def, true);
            }
            6 => {
                out.push_str(&format!("{pad}def {}({}):\n", self.ch.pick_s(&["f", "g", "h"]), self.params()));
                self.block(indent + step, depth + 1, out, true, false);
            }
            _ => {
                // one-line suites
                match self.ch.below(3) {
                    0 => out.push_str(&format!("{pad}if {}: {}\n", self.expr(1), self.expr(1))),
                    1 => out.push_str(&format!("{pad}for i in {}: {}; {}\n", self.expr(1), self.expr(1), self.expr(1))),
                    _ => out.push_str(&format!("{pad}def f({}): return {}\n", self.params(), self.expr(1))),
                }
            }
        }
    }
}

fn gen_module(ch: &mut Choices) -> (String, Vec<&'static str>) {
    let mut g = G { ch, ops: Vec::new() };
    let mut out = String::new();
    let n = 1 + g.ch.idx(4);
    for _ in 0..n {
        g.stmt(0, 0, &mut out, false, false);
    }
    (out, g.ops)
}

// ---- oracles ---------------------------------------------------------------------------------------

/// Constructs outside the grammar Starlark shares with Python, recognised on the text. A disagreement on
/// acceptance only counts when none of these is present (each entry: why the two grammars differ).
fn outside_shared(src: &str) -> Option<&'static str> {
    let toks = tokens(src);
    let has = |t: &str| toks.iter().any(|x| x == t);
    for kw in ["load", "while", "class", "import", "from", "global", "nonlocal", "del", "try", "except", "finally", "raise", "with", "as", "assert", "yield", "is", "async", "await", "match", "case", "print", "exec", "type"] {
        if has(kw) {
            return Some("keyword reserved or defined on one side only");
        }
    }
    if src.contains(';') {
        return Some("semicolon placement rules differ (trailing / doubled ';')");
    }
    if src.contains('\t') {
        return Some("tabs in indentation are rejected by Starlark");
    }
    if src.contains("**") && !src.contains("**{") && toks.windows(2).any(|w| w[1] == "**" && w[0] != "(" && w[0] != ",") {
        return Some("** power operator exists only in Python");
    }
    if src.contains(":=") || src.contains("->") || src.contains('@') || src.contains('`') || src.contains('$') || src.contains('?') || src.contains('!') && !src.contains("!=") {
        return Some("token exists on one side only");
    }
    {
        // A carriage return that is not part of a CR LF pair: a line end for Python, plain white space in the Starlark
        // specification, "invalid input" for this lexer (which recognises `\n` and `\r\n` only) - the two language
        // definitions disagree, so such text is not in the shared grammar.
        let b = src.as_bytes();
        if (0..b.len()).any(|i| b[i] == b'\r' && b.get(i + 1) != Some(&b'\n')) {
            return Some("lone carriage return: line end in Python, white space in the Starlark specification");
        }
    }
    if src.contains("...") {
        return Some("ellipsis");
    }
    if src.contains('\\') {
        return Some("string escapes / line continuation details differ");
    }
    // numeric literal forms
    for t in &toks {
        let b = t.as_bytes();
        if b[0].is_ascii_digit() {
            if t.contains('_') || t.ends_with('j') || t.ends_with('J') || t.ends_with('l') || t.ends_with('L') {
                return Some("numeric literal form exists on one side only");
            }
            if t.len() > 1 && b[0] == b'0' && b[1].is_ascii_digit() {
                return Some("leading-zero literals differ");
            }
            if t.contains('e') && !t.starts_with("0x") || t.contains('E') && !t.starts_with("0x") && !t.starts_with("0X") {
                return Some("float exponent forms are lexed differently when malformed");
            }
        }
    }
    // string prefixes and implicit concatenation
    for w in toks.windows(2) {
        if (w[1].starts_with('"') || w[1].starts_with('\'')) && (w[0].starts_with('"') || w[0].starts_with('\'')) {
            return Some("implicit string concatenation is not Starlark");
        }
        if (w[1].starts_with('"') || w[1].starts_with('\'')) && matches!(w[0].as_str(), "b" | "f" | "u" | "rb" | "br" | "fr" | "rf" | "B" | "F" | "U" | "R" | "Rb" | "bR") {
            return Some("string prefix exists on one side only");
        }
    }
    if !src.is_ascii() {
        return Some("non-ASCII identifiers / whitespace differ");
    }
    None
}

fn tokens(src: &str) -> Vec<String> {
    let mut out = Vec::new();
    let cs: Vec<char> = src.chars().collect();
    let mut i = 0;
    while i < cs.len() {
        let c = cs[i];
        if c.is_whitespace() {
            i += 1;
        } else if c.is_alphanumeric() || c == '_' {
            let s = i;
            while i < cs.len() && (cs[i].is_alphanumeric() || cs[i] == '_' || (cs[i] == '.' && cs[s].is_ascii_digit())) {
                i += 1;
            }
            out.push(cs[s..i].iter().collect());
        } else if c == '"' || c == '\'' {
            let s = i;
            i += 1;
            while i < cs.len() && cs[i] != c && cs[i] != '\n' {
                i += 1;
            }
            i = (i + 1).min(cs.len());
            out.push(cs[s..i].iter().collect());
        } else if c == '#' {
            while i < cs.len() && cs[i] != '\n' {
                i += 1;
            }
        } else {
            if c == '*' && i + 1 < cs.len() && cs[i + 1] == '*' {
                out.push("**".to_owned());
                i += 2;
            } else {
                out.push(c.to_string());
                i += 1;
            }
        }
    }
    out
}

fn check_tree(ctx: &mut Ctx, src: &str, r: &mut CaseResult, mutated: bool) {
    let d = shared_dialect();
    let sl = sexp_of(src, &d);
    let py = ctx.oracle().request(&json!({"op": "ast", "src": src}));
    r.evals += 1;
    let py_acc = py["accepted"].as_bool().unwrap_or(false);
    let py_shared = py["shared"].as_bool().unwrap_or(false);
    match (&sl, py_acc) {
        (Ok(s), true) => {
            if py_shared {
                r.label("both_accept");
                let want = py["sexp"].as_str().unwrap_or("");
                if s != want {
                    // Signature of a known finding: a raw string literal containing backslash-quote.
                    let raw_quote = (src.contains("r\"") || src.contains("r'") || src.contains("R\"") || src.contains("R'")) && (src.contains("\\\"") || src.contains("\\'"));
                    r.fail(if raw_quote { "raw-string-escaped-quote" } else { "tree-mismatch" }, format!("different trees for {src:?}\nstarlark: {}\nreference: {}", truncate(s, 1500), truncate(want, 1500)));
                }
            } else {
                r.label("skipped_not_shared");
            }
        }
        (Err(_), false) => r.label("both_reject"),
        (Err(e), true) => {
            if !py_shared {
                r.label("skipped_not_shared");
            } else if let Some(_why) = outside_shared(src) {
                r.label("skipped_not_shared");
            } else if e.contains("unparenthesized tuple with trailing comma") {
                // The Starlark spec grammar has no trailing comma outside brackets (Expression = Test {',' Test});
                // Python has: outside the shared grammar.
                r.label("skipped_not_shared");
            } else {
                // Signature of a known finding: an unparenthesised tuple as an expression statement.
                let bare_tuple = e.contains("expected assignment operator") && py["sexp"].as_str().unwrap_or("").contains("(expr (tuple");
                r.fail(if bare_tuple { "bare-tuple-expression-statement" } else { "acceptance-starlark-rejects" }, format!("the reference grammar accepts {src:?} (tree {}) but starlark rejects it: {e}", truncate(py["sexp"].as_str().unwrap_or(""), 400)));
            }
        }
        (Ok(s), false) => {
            if outside_shared(src).is_some() {
                r.label("skipped_not_shared");
            } else {
                r.fail("acceptance-starlark-accepts", format!("starlark accepts {src:?} (tree {}) but the reference grammar rejects it: {}", truncate(s, 400), py["msg"]));
            }
        }
    }
    let _ = mutated;
}

/// Printing round trip: parse(print(parse(x))) is structurally equal to parse(x), and printing is a
/// fixed point.
fn check_roundtrip(src: &str, dialect: &Dialect, r: &mut CaseResult) {
    let Ok(ast) = AstModule::parse("rt.star", src.to_owned(), dialect) else { return };
    r.evals += 1;
    r.label("roundtrip");
    let big = src.len() > 1500;
    let work = move || -> Result<(), (String, String)> {
        let norm = |a: &AstModule, text: &str| {
            let mut w = Walk::new(text, false, false);
            w.normalize = true;
            w.module(a.statement());
            w.out
        };
        let p1 = format!("{}", a_stmt(&ast));
        let n0 = norm(&ast, src);
        let ast1 = match AstModule::parse("rt1.star", p1.clone(), dialect) {
            Ok(a) => a,
            Err(e) => return Err(("print-does-not-parse".into(), format!("printed text does not parse: {}\n--- source\n{src}\n--- printed\n{p1}", e.without_diagnostic()))),
        };
        let n1 = norm(&ast1, &p1);
        if n0 != n1 {
            return Err(("print-changes-tree".into(), format!("printing changed the tree\n--- source\n{src}\n--- printed\n{p1}\n--- tree before\n{}\n--- tree after\n{}", truncate(&n0, 1200), truncate(&n1, 1200))));
        }
        let p2 = format!("{}", a_stmt(&ast1));
        if p2 != p1 {
            return Err(("print-not-fixed-point".into(), format!("print(parse(p1)) != p1\n--- p1\n{p1}\n--- p2\n{p2}")));
        }
        Ok(())
    };
    let res = if big { crate::props::c05::on_big_stack(work) } else { work() };
    if let Err((c, m)) = res {
        r.fail(&c, m);
    }
}

fn a_stmt(a: &AstModule) -> &starlark::syntax::ast::Stmt {
    &a.statement().node
}

impl Prop for C06 {
    fn id(&self) -> &'static str {
        "C06"
    }
    fn cases(&self, tier: Tier) -> u64 {
        match tier {
            Tier::Quick => 16_000,
            Tier::Thorough => 1_500_000,
        }
    }
    fn choice_len(&self, _tier: Tier) -> (usize, usize) {
        (6, 300)
    }
    fn rule(&self) -> String {
        "Domain A: grammar-directed modules over the shared token alphabet, written WITHOUT redundant parentheses (every binary operator incl. `not in`, unary operators, not, conditional expressions, lambdas with all parameter forms, comprehensions with several clauses, calls with positional/named/*/** arguments and trailing commas, slices, tuples with and without parentheses, all statement forms, one-line suites, indentation widths 1/2/4/8). Enumerated every run: all ordered pairs of the 21 binary operators (a op1 b op2 c), unary x binary in both positions, not x binary, conditional x binary. Domain B: token-level mutations of domain A (acceptance). Domain C (round trip): domain A, programs of the typed generator (profile full), the repository's own .star/.bzl/golden programs and their mutations, under the full dialect. Oracle A/B: S-expression of the Starlark AST (own printer) equals the S-expression printed from CPython's ast.parse by the oracle worker; acceptance must agree unless the text uses a construct outside the shared grammar (list in outside_shared(), each with the reason; chained comparisons etc. are detected on the reference tree). Oracle C: print(parse(x)) parses, is structurally equal to parse(x) modulo the documented normalisations (nested statement lists flattened, f-strings printed as .format calls), and is a fixed point of parse-then-print. Non-trivial = >= 2 operators or a clause/argument structure; distinct = distinct text.".into()
    }
    fn assumptions(&self) -> Vec<String> {
        vec!["the reference grammar is (Starlark spec) ∩ (CPython 3.11): a disagreement on acceptance is reported only for texts that use nothing from the outside_shared() list".into()]
    }
    fn floors(&self) -> Vec<(&'static str, f64)> {
        vec![("both_accept", 0.15), ("roundtrip", 0.4)]
    }
    fn known_probe(&self, ctx: &mut Ctx, sig: &str) -> Option<(bool, String)> {
        let src = match sig {
            "raw-string-escaped-quote" => "x = r\"\\\"\"\n",
            "bare-tuple-expression-statement" => "x, y\n",
            _ => return None,
        };
        let mut r = CaseResult::new(String::new());
        check_tree(ctx, src, &mut r, false);
        Some((r.fails.iter().any(|f| f.class == sig), r.fails.first().map(|f| f.msg.clone()).unwrap_or_else(|| format!("{src:?} now agrees with the reference"))))
    }
    fn has_exhaustive(&self) -> bool {
        true
    }
    fn exhaustive(&self, ctx: &mut Ctx, sink: &mut dyn FnMut(CaseResult)) {
        let mut texts: Vec<String> = Vec::new();
        for a in BIN {
            for b in BIN {
                texts.push(format!("x = p {a} q {b} r\n"));
                texts.push(format!("f(p {a} q {b} r, k = p {b} q {a} r)\n"));
                texts.push(format!("y = [p {a} q {b} r for i in s if p {b} q]\n"));
            }
            for u in UN {
                texts.push(format!("x = {u}p {a} q\n"));
                texts.push(format!("x = p {a} {u}q\n"));
                texts.push(format!("x = {u}{u}p {a} {u}q {a} r\n"));
            }
            texts.push(format!("x = p {a} q if c {a} d else e {a} g\n"));
            texts.push(format!("x = lambda p: p {a} q if c else r\n"));
        }
        for (i, t) in texts.iter().enumerate() {
            if i % ctx.workers != ctx.worker {
                continue;
            }
            let mut r = CaseResult::new(format!("[enumerated operator table] {t}"));
            r.evals = 0;
            check_tree(ctx, t, &mut r, false);
            check_roundtrip(t, &Dialect::AllOptionsInternal, &mut r);
            r.nontrivial.push(fnv(t.as_bytes()));
            sink(r);
        }
    }
    fn run(&self, ctx: &mut Ctx, ch: &mut Choices) -> CaseResult {
        let family = ch.weighted(&[10, 6, 3, 3, 3]);
        match family {
            0 | 1 => {
                let (src, ops) = gen_module(ch);
                let src = if family == 1 { textgen::mutate(ch, &src) } else { src };
                let mut r = CaseResult::new(format!("[{}] {src}", if family == 1 { "grammar+mutation" } else { "grammar" }));
                r.evals = 0;
                r.label(if family == 1 { "domain_b" } else { "domain_a" });
                check_tree(ctx, &src, &mut r, family == 1);
                check_roundtrip(&src, &Dialect::AllOptionsInternal, &mut r);
                if ops.len() >= 2 || src.contains(" for ") || src.contains('(') {
                    r.nontrivial_self();
                }
                r
            }
            2 => {
                let opts = prog::Opts { profile: prog::Profile::Full, max_stmts: 14, ..Default::default() };
                let src = {
                    let mut g = prog::Gen::new(ch, opts);
                    prog::render_plain(&g.program())
                };
                let mut r = CaseResult::new(format!("[typed program] {src}"));
                r.evals = 0;
                r.label("domain_c_prog");
                check_roundtrip(&src, &Dialect::AllOptionsInternal, &mut r);
                r.nontrivial_self();
                r
            }
            _ => {
                let progs = crate::corpus::programs();
                let base = &progs[ch.idx(progs.len())];
                let src = if family == 4 { textgen::mutate(ch, base) } else { base.clone() };
                let mut r = CaseResult::new(format!("[corpus{}] {}", if family == 4 { "+mutation" } else { "" }, truncate(&src, 600)));
                r.evals = 0;
                r.label("domain_c_corpus");
                check_roundtrip(&src, &Dialect::AllOptionsInternal, &mut r);
                if r.labels.contains(&"roundtrip") {
                    r.nontrivial.push(fnv(src.as_bytes()));
                }
                r
            }
        }
    }
}
