//! C01 — evaluation agrees with CPython on the Python-shared core (differential).

use serde_json::json;

use crate::engine::*;
use crate::prog;
use crate::sl;

pub struct C01;

#[derive(Debug, Clone, PartialEq)]
pub struct Obs {
    pub class: String, // ok | fail:<msg> | error | limit | static
    pub tx: Vec<String>,
}

pub fn starlark_obs(src: &str, want_vars: bool) -> (Obs, Vec<(String, String)>) {
    let cfg = sl::RunCfg { dialect: starlark::syntax::Dialect::Extended, ..Default::default() };
    let out = sl::run_src("prog.star", src, &cfg, &[]);
    let class = match &out.result {
        Ok(_) => "ok".to_owned(),
        Err(e) => classify_starlark_error(e),
    };
    let vars = if want_vars { out.vars.into_iter().filter(|(_, v)| !v.starts_with("o:function")).collect() } else { Vec::new() };
    (Obs { class, tx: out.tx }, vars)
}

pub fn classify_starlark_error(e: &sl::ErrInfo) -> String {
    let m = &e.msg;
    if e.kind == "Fail" {
        let m = m.strip_prefix("fail: ").unwrap_or(m);
        return format!("fail:{}", m.trim());
    }
    if m.contains("Starlark call stack overflow") || m.contains("tick") && m.contains("limit") || m.contains("memory limit") || m.contains("heap") && m.contains("limit") || m.contains("cancelled") {
        return "limit".to_owned();
    }
    if e.kind == "StackOverflow" {
        return "limit".to_owned();
    }
    if e.kind == "Internal" {
        return "internal".to_owned();
    }
    "error".to_owned()
}

pub fn python_obs(ctx: &mut Ctx, src: &str, want_vars: bool) -> (Obs, Vec<(String, String)>) {
    let r = ctx.oracle().request(&json!({"op": "exec", "src": src, "vars": want_vars, "timeout": 3.0}));
    let class = match r["outcome"].as_str().unwrap_or("?") {
        "ok" => "ok".to_owned(),
        "fail" => format!("fail:{}", r["msg"].as_str().unwrap_or("").trim()),
        "timeout" => "limit".to_owned(),
        "syntax" => "static".to_owned(),
        _ => "error".to_owned(),
    };
    let tx = r["tx"].as_array().map(|a| a.iter().map(|x| x.as_str().unwrap_or("").to_owned()).collect()).unwrap_or_default();
    let vars = r["vars"].as_array().map(|a| a.iter().map(|kv| (kv[0].as_str().unwrap_or("").to_owned(), kv[1].as_str().unwrap_or("").to_owned())).collect()).unwrap_or_default();
    (Obs { class, tx }, vars)
}

fn first_diff(a: &[String], b: &[String]) -> String {
    for i in 0..a.len().max(b.len()) {
        if a.get(i) != b.get(i) {
            return format!("first difference at emit #{i}: starlark={:?} python={:?}", a.get(i).map(|s| truncate(s, 200)), b.get(i).map(|s| truncate(s, 200)));
        }
    }
    "transcripts equal".into()
}

impl Prop for C01 {
    fn id(&self) -> &'static str {
        "C01"
    }
    fn cases(&self, tier: Tier) -> u64 {
        match tier {
            Tier::Quick => 30_000,
            Tier::Thorough => 300_000,
        }
    }
    fn choice_len(&self, _tier: Tier) -> (usize, usize) {
        (30, 900)
    }
    fn rule(&self) -> String {
        "Case = program from the type-directed generator (profile shared: ints incl. > 64 bit, bools, strs incl. non-ASCII, None, lists, tuples, dicts, slicing, comprehensions, closures, def/lambda with defaults/*args/named args, if/for/break/continue/return, shared builtins and methods, ~25% with one injected runtime failure), executed at module level and wrapped in def main(), each compared with CPython 3.11 running the same text: transcript of emit() encodings, outcome class (ok / fail(msg) / error) and, at module level, final non-function globals. evaluations = executions compared (2 placements). Non-trivial = >= 5 emits executed and the program contains a closure, comprehension, strided slice, default/named/star args, break/continue, early return, recursion, in-place mutation, %/format, or an injected failure; distinct = distinct program text.".into()
    }
    fn assumptions(&self) -> Vec<String> {
        vec![
            "CPython 3.11 is the reference for the shared core; constructs where the Starlark spec deliberately differs are not generated (floats, bool/int mixing, chained comparison, string iteration, str() of containers, popitem, mutation during iteration, duplicate literal dict keys)".into(),
            "error messages are not compared across languages, only ok / explicit fail(msg) / other error and the failure point (transcript)".into(),
            "cases that hit a resource limit on either side are skipped and counted (label skipped_limit)".into(),
        ]
    }
    fn floors(&self) -> Vec<(&'static str, f64)> {
        vec![("runtime_failure", 0.10), ("def", 0.25), ("compr", 0.20), ("nontrivial", 0.5)]
    }
    fn render(&self, _ctx: &mut Ctx, ch: &mut Choices) -> String {
        let mut g = prog::Gen::new(ch, prog::Opts::default());
        prog::render_plain(&g.program())
    }
    fn known_probe(&self, ctx: &mut Ctx, sig: &str) -> Option<(bool, String)> {
        if sig == "repeat-count-beyond-i32" {
            let src = "emit([1] * (-4294967294))\nemit(\"ab\" * (-4294967294))\nemit((1,) * (-4294967294))\n";
            let (s, _) = starlark_obs(src, false);
            let (p, _) = python_obs(ctx, src, false);
            return Some((s != p, format!("[1] * (-4294967294): starlark {:?} / {} vs python {:?} / {}", s.tx, s.class, p.tx, p.class)));
        }
        None
    }
    fn run(&self, ctx: &mut Ctx, ch: &mut Choices) -> CaseResult {
        let mut g = prog::Gen::new(ch, prog::Opts::default());
        let marked = g.program();
        let labels = g.labels.clone();
        let plain = prog::render_plain(&marked);
        let wrapped = prog::wrap_in_def(&plain);
        let mut r = CaseResult::new(plain.clone());
        r.evals = 2;
        for l in &labels {
            r.label(l);
        }
        let (s_mod, s_vars) = starlark_obs(&plain, true);
        let (p_mod, p_vars) = python_obs(ctx, &plain, true);
        let (s_def, _) = starlark_obs(&wrapped, false);
        let (p_def, _) = python_obs(ctx, &wrapped, false);
        if [&s_mod, &p_mod, &s_def, &p_def].iter().any(|o| o.class == "limit") {
            r.label("skipped_limit");
            return r;
        }
        if p_mod.class == "static" || p_def.class == "static" {
            r.fail("generator-bug", format!("python rejects the program statically\n{plain}"));
            return r;
        }
        if s_mod.class != "ok" {
            r.label("runtime_failure");
        }
        for (place, s, p, text) in [("module", &s_mod, &p_mod, &plain), ("def", &s_def, &p_def, &wrapped)] {
            if s.class == "internal" {
                r.fail("internal-error", format!("[{place}] starlark reports an internal error\n{text}"));
            } else if s.tx != p.tx {
                r.fail("transcript-mismatch", format!("[{place}] {}\nstarlark outcome={} python outcome={}\n{text}", first_diff(&s.tx, &p.tx), s.class, p.class));
            } else if s.class != p.class {
                r.fail("outcome-mismatch", format!("[{place}] same transcript ({} emits) but starlark outcome={} python outcome={}\n{text}", s.tx.len(), s.class, p.class));
            }
        }
        if s_mod.class == "ok" && p_mod.class == "ok" && s_vars != p_vars {
            let d = s_vars.iter().zip(p_vars.iter()).find(|(a, b)| a != b).map(|(a, b)| format!("starlark {a:?} python {b:?}")).unwrap_or_else(|| format!("different variable sets: {} vs {}", s_vars.len(), p_vars.len()));
            r.fail("globals-mismatch", format!("final globals differ: {d}\n{plain}"));
        }
        let interesting = labels.iter().any(|l| {
            matches!(*l, "closure" | "compr" | "compr_multi" | "compr_capture" | "dict_compr" | "slice_stride" | "defaults" | "default_args" | "named_args" | "star_args" | "break_continue" | "early_return" | "recursion" | "mutation" | "format" | "injected_failure" | "lambda")
        });
        if s_mod.tx.len() >= 5 && interesting {
            r.label("nontrivial");
            r.nontrivial_self();
        }
        r
    }
}
