//! C17 — the static type checker terminates without crashing, is deterministic, is silent on
//! well-typed-by-construction code, and is sound where it commits to a definite type.

use starlark::typing::AstModuleTypecheck;
use starlark::values::list::ListRef;

use crate::engine::*;
use crate::prog;
use crate::sl;
use crate::textgen;

pub struct C17;

const WELL_TYPED: &[&str] = &[
    // regression (fixed by 5383095): int * <unknown> must not be typed as a number
    "def g():\n    v = \"a\" + \"b\"\n    return (2 * v).find(\"a\")\n",
    "def g(s):\n    return (3 * s)[0]\n",
    // regression: typecheck must survive unresolved identifiers (reported by the scope checker)
    "def f():\n    xs = []\n    xs.append(1)\n    return xs\n",
    "def g():\n    xs = [1] + [2]\n    return (2 * xs).index(1)\n",
    "def f(a: int, b: str = \"x\") -> str:\n    return a * b\ndef h() -> int:\n    return len(f(2))\n",
    "def f(xs: list[int]) -> int:\n    t = 0\n    for x in xs:\n        t += x\n    return t\ny = f([1, 2])\n",
    "def f(d: dict[str, int]) -> list[str]:\n    return [k for k in d if d[k] > 0]\n",
    "def f(t: (int, str)) -> str:\n    return t[1] * t[0]\n",
    "def f(x: int | None) -> int:\n    if x == None:\n        return 0\n    return x\n",
    "def f(a, *args, k = 1, **kw):\n    return (a, args, k, kw)\nz = f(1, 2, k = 3, q = 4)\n",
];

struct TcOut {
    errors: Vec<String>,
    typemap: String,
    approximations: Vec<String>,
    iface: Vec<(String, String)>,
}

fn typecheck(src: &str, names: &[String]) -> Result<Option<TcOut>, String> {
    let Ok(ast) = sl::parse("tc.star", src, &sl::dialect_all()) else { return Ok(None) };
    let r = std::panic::catch_unwind(std::panic::AssertUnwindSafe(|| {
        let (errors, tm, iface, approx) = ast.typecheck(sl::globals(), &Default::default());
        TcOut {
            errors: errors.iter().map(|e| format!("{e}")).collect(),
            typemap: format!("{tm}"),
            approximations: approx.iter().map(|a| format!("{a}")).collect(),
            iface: names.iter().filter_map(|n| iface.get(n).map(|t| (n.clone(), format!("{t}")))).collect(),
        }
    }));
    match r {
        Ok(o) => Ok(Some(o)),
        Err(e) => Err(panic_msg(&e)),
    }
}

/// Top-level names assigned by plain `name = ...` statements.
fn top_level_names(src: &str) -> Vec<String> {
    let mut v: Vec<String> = Vec::new();
    for l in src.lines() {
        if let Some((lhs, _)) = l.split_once(" = ") {
            let lhs = lhs.split_once(": ").map(|x| x.0).unwrap_or(lhs);
            if !l.starts_with(' ') && lhs.chars().all(|c| c.is_alphanumeric() || c == '_') && !lhs.is_empty() && !v.contains(&lhs.to_owned()) {
                v.push(lhs.to_owned());
            }
        }
    }
    v
}

/// Renders a checker type as a Starlark type expression, or None when the checker did not commit to a
/// definite, expressible type.
fn committed_type_expr(ty: &str) -> Option<String> {
    if ty.contains("typing.Any") || ty.contains("typing.Never") || ty.contains("def(") || ty.contains("typing.Callable") || ty.contains("function") || ty.contains("...") && !ty.contains("tuple[") {
        return None;
    }
    // fixed-arity tuples are displayed as tuple[a, b] but spelled (a, b) in type expressions
    let mut out = String::new();
    let cs: Vec<char> = ty.chars().collect();
    let mut i = 0;
    let mut stack: Vec<bool> = Vec::new(); // true = this bracket belongs to a fixed tuple
    while i < cs.len() {
        if cs[i..].starts_with(&['t', 'u', 'p', 'l', 'e', '[']) {
            // find whether it is variadic: look ahead for ", ...]" at depth 1
            let mut depth = 0;
            let mut j = i + 5;
            let mut variadic = false;
            while j < cs.len() {
                match cs[j] {
                    '[' => depth += 1,
                    ']' => {
                        depth -= 1;
                        if depth == 0 {
                            break;
                        }
                    }
                    '.' if depth == 1 && cs[j..].starts_with(&['.', '.', '.']) => variadic = true,
                    _ => {}
                }
                j += 1;
            }
            if variadic {
                out.push_str("tuple[");
                stack.push(false);
            } else {
                out.push('(');
                stack.push(true);
            }
            i += 6;
            continue;
        }
        match cs[i] {
            '[' => {
                stack.push(false);
                out.push('[');
            }
            ']' => {
                if stack.pop() == Some(true) {
                    out.push_str(",)");
                } else {
                    out.push(']');
                }
            }
            c => out.push(c),
        }
        i += 1;
    }
    Some(out)
}

impl Prop for C17 {
    fn id(&self) -> &'static str {
        "C17"
    }
    fn cases(&self, tier: Tier) -> u64 {
        match tier {
            Tier::Quick => 300_000,
            Tier::Thorough => 1_000_000,
        }
    }
    fn choice_len(&self, _tier: Tier) -> (usize, usize) {
        (20, 700)
    }
    fn rule(&self) -> String {
        "Part (a), any parseable module: typed-generator programs (shared / full profiles), the same with constants replaced by values of other types, the repository's .star/.bzl/golden programs and token mutations of all of these: typecheck() must return (no panic; worker isolation for aborts) and two runs must give identical error lists, TypeMap rendering, approximations and interface types. Part (b), well typed by construction: programs of the type-directed monomorphic profile (ints, strs, bools, None, homogeneous lists, dicts, tuples, defs with and without parameter/return annotations, default/named arguments, recursion, calls, comprehensions, conditionals; no container mutation after binding, no rebinding at another type, no injected failures) must produce zero errors. Part (c): after evaluating such a module, for every top-level binding to which the checker assigned a definite type (no Any/Never/function type, no approximation reported) isinstance(value, <that type>) must hold. Non-trivial = the module has a def whose inferred or annotated result feeds a top-level binding, or a comprehension/conditional feeding one; distinct = distinct module text.".into()
    }
    fn assumptions(&self) -> Vec<String> {
        vec!["checker types are turned into type expressions textually (tuple[a, b] -> (a, b)); types the conversion cannot express are counted as not committed".into()]
    }
    fn floors(&self) -> Vec<(&'static str, f64)> {
        vec![("well_typed_profile", 0.3), ("committed", 0.04), ("any_parseable", 0.3)]
    }
    fn has_exhaustive(&self) -> bool {
        true
    }
    /// Hand-written well-typed modules (regressions of fixed findings and typing-rule corners): zero errors.
    fn exhaustive(&self, ctx: &mut Ctx, sink: &mut dyn FnMut(CaseResult)) {
        if ctx.worker != 0 {
            return;
        }
        // must not panic (errors are fine): unresolved receiver of append/extend/insert
        for src in ["def f():\n    nope.extend([1])\n", "nope.append(1)\n", "def f():\n    nope.insert(0, 1)\n"] {
            let mut r = CaseResult::new(format!("[fixed module, must not crash] {src}"));
            if let Err(p) = typecheck(src, &[]) {
                r.fail("typecheck-panic", format!("typecheck panicked: {p}\n{src}"));
            }
            r.nontrivial_self();
            sink(r);
        }
        for src in WELL_TYPED {
            let mut r = CaseResult::new(format!("[fixed well-typed module] {src}"));
            match typecheck(src, &[]) {
                Ok(Some(o)) => {
                    if !o.errors.is_empty() {
                        r.fail("false-type-error", format!("well-typed module, but the checker reports: {}\n{src}", o.errors.join("\n")));
                    }
                }
                Ok(None) => r.fail("generator-bug", format!("does not parse: {src}")),
                Err(p) => r.fail("typecheck-panic", format!("typecheck panicked: {p}\n{src}")),
            }
            r.nontrivial_self();
            sink(r);
        }
    }
    fn run(&self, _ctx: &mut Ctx, ch: &mut Choices) -> CaseResult {
        let family = ch.weighted(&[8, 4, 3, 3]);
        let mut glabels: Vec<&'static str> = Vec::new();
        let (src, well_typed): (String, bool) = match family {
            0 => {
                let opts = prog::Opts { profile: prog::Profile::Shared, max_stmts: 16, fail_pct: 0, inner_emits: false, markers: false, no_mutation: true, annotate: true, inline_probes: false };
                let mut g = prog::Gen::new(ch, opts);
                let p = prog::render_plain(&g.program());
                glabels = g.labels.clone();
                (p, true)
            }
            1 => {
                let opts = prog::Opts { profile: if ch.bool() { prog::Profile::Full } else { prog::Profile::Shared }, max_stmts: 16, annotate: true, ..Default::default() };
                let mut g = prog::Gen::new(ch, opts);
                (prog::render_plain(&g.program()), false)
            }
            2 => {
                let opts = prog::Opts { profile: prog::Profile::Full, max_stmts: 10, annotate: true, ..Default::default() };
                let base = {
                    let mut g = prog::Gen::new(ch, opts);
                    prog::render_plain(&g.program())
                };
                (textgen::mutate(ch, &base), false)
            }
            _ => {
                let progs = crate::corpus::programs();
                let base = &progs[ch.idx(progs.len())];
                (if ch.bool() { textgen::mutate(ch, base) } else { base.clone() }, false)
            }
        };
        let mut r = CaseResult::new(format!("[{}] {}", if well_typed { "well typed by construction" } else { "any parseable" }, truncate(&src, 3000)));
        r.evals = 0;
        for l in &glabels {
            r.label(l);
        }
        let names = top_level_names(&src);
        let first = match typecheck(&src, &names) {
            Ok(None) => {
                r.label("unparseable");
                r.evals = 1;
                return r;
            }
            Ok(Some(o)) => o,
            Err(p) => {
                r.fail("typecheck-panic", format!("typecheck panicked: {p}\n{src}"));
                return r;
            }
        };
        r.evals += 1;
        r.label(if well_typed { "well_typed_profile" } else { "any_parseable" });
        // determinism within the process
        match typecheck(&src, &names) {
            Ok(Some(second)) => {
                r.evals += 1;
                if second.errors != first.errors || second.typemap != first.typemap || second.approximations != first.approximations || second.iface != first.iface {
                    r.fail("typecheck-nondeterministic", format!("two runs differ: errors {:?} vs {:?}\n{src}", first.errors, second.errors));
                }
            }
            _ => r.fail("typecheck-nondeterministic", format!("second run did not complete\n{src}")),
        }
        if !well_typed {
            if !first.errors.is_empty() {
                r.label("reports_errors");
            }
            if src.len() > 40 {
                r.nontrivial.push(fnv(src.as_bytes()));
            }
            return r;
        }
        if !first.errors.is_empty() {
            // Signature of a finding: every reported error stems from `int * <unknown>` being typed as a number.
            let int_mul = first.errors.iter().all(|e| e.contains("float | int")) && src.contains(" * ");
            r.fail(if int_mul { "int-times-unknown-typed-numeric" } else { "false-type-error" }, format!("well-typed-by-construction module, but the checker reports: {}\n{src}", first.errors.join("\n")));
            return r;
        }
        // soundness where it commits
        if first.approximations.is_empty() {
            let mut checks = String::from("\ntcchk = []\n");
            let mut asked: Vec<(String, String)> = Vec::new();
            for (n, t) in &first.iface {
                if let Some(texpr) = committed_type_expr(t) {
                    checks.push_str(&format!("tcchk.append(catch(lambda: isinstance({n}, {texpr})))\n"));
                    asked.push((n.clone(), t.clone()));
                }
            }
            // Function bindings: the checker commits to `def(...) -> R`; every top-level `v = f(...)` result
            // must then belong to R.
            let fnames: Vec<String> = src.lines().filter(|l| l.starts_with("def ")).filter_map(|l| l[4..].split('(').next().map(|s| s.to_owned())).collect();
            let (_, _, iface_f) = (0, 0, typecheck(&src, &fnames).ok().flatten().map(|o| o.iface).unwrap_or_default());
            for l in src.lines() {
                if l.starts_with(' ') {
                    continue;
                }
                let Some((lhs, rhs)) = l.split_once(" = ") else { continue };
                let lhs = lhs.split_once(": ").map(|x| x.0).unwrap_or(lhs);
                if !lhs.chars().all(|c| c.is_alphanumeric() || c == '_') {
                    continue;
                }
                let Some(callee) = rhs.split('(').next() else { continue };
                // the right-hand side must be exactly one call `f(...)`
                let rest = &rhs[callee.len()..];
                let mut depth = 0i32;
                let mut closes_at_end = false;
                for (i, c) in rest.char_indices() {
                    match c {
                        '(' | '[' | '{' => depth += 1,
                        ')' | ']' | '}' => {
                            depth -= 1;
                            if depth == 0 {
                                closes_at_end = i + 1 == rest.len();
                                break;
                            }
                        }
                        _ => {}
                    }
                }
                if !closes_at_end || rest.contains('"') {
                    continue;
                }
                if let Some((_, fty)) = iface_f.iter().find(|(n, _)| n == callee) {
                    if let Some((_, ret)) = fty.rsplit_once(" -> ") {
                        if let Some(texpr) = committed_type_expr(ret) {
                            checks.push_str(&format!("tcchk.append(catch(lambda: isinstance({lhs}, {texpr})))\n"));
                            asked.push((format!("{lhs} (result of {callee})"), ret.to_owned()));
                        }
                    }
                }
            }
            if !asked.is_empty() {
                let full = format!("{src}{checks}");
                let mut got: Vec<String> = Vec::new();
                let out = sl::run_src_with("tc-run.star", &full, &sl::RunCfg::default(), &[], |m, _| {
                    if let Some(l) = m.get("tcchk").and_then(ListRef::from_value) {
                        got = l.iter().map(sl::encode).collect();
                    }
                });
                match out.result {
                    Err(e) => {
                        // a well-typed program may still fail at run time only through resource limits
                        if !e.msg.contains("limit") {
                            r.fail("generator-bug", format!("well-typed module failed at run time: {}\n{src}", e.msg));
                        }
                    }
                    Ok(_) => {
                        for ((n, t), g) in asked.iter().zip(got.iter()) {
                            r.evals += 1;
                            if g == "(\"ok\",T,)" {
                                r.label("committed");
                            } else if g == "(\"ok\",F,)" {
                                r.fail("unsound-type", format!("the checker assigns `{n}` the type {t} (no approximation reported) but the value it holds after evaluation does not have that type\n{src}"));
                            }
                        }
                    }
                }
            }
        } else {
            r.label("approximation_reported");
        }
        if src.contains("def ") || src.contains(" for ") || src.contains(" if ") {
            r.nontrivial_self();
        }
        r
    }
}
