//! C07 — evaluation is total and recoverable: a value or a located error, never a crash.

use starlark::environment::Module;
use starlark::eval::Evaluator;

use crate::astx::span_in_file;
use crate::engine::*;
use crate::prog;
use crate::sl;

pub struct C07;

/// Hostile argument pool (Starlark source expressions). Repeat counts stay bounded.
pub const POOL: &[&str] = &[
    "None",
    "True",
    "False",
    "0",
    "1",
    "-1",
    "2147483647",
    "2147483648",
    "-2147483648",
    "-2147483649",
    "9223372036854775807",
    "9223372036854775808",
    "-9223372036854775809",
    "(1 << 200)",
    "-(1 << 200)",
    "1000000",
    "0.0",
    "-0.0",
    "1.5",
    "1e308",
    "float(\"inf\")",
    "float(\"nan\")",
    "\"\"",
    "\"a\"",
    "\"abc\"",
    "\"é名😀\"",
    // long texts in several scripts (1-, 2-, 3- and 4-byte characters at every offset): error messages quote and
    // abbreviate the offending value
    "\"жжж名名\" * 13",
    "\"ab名\" * 30",
    "\"q😀ж\" * 25",
    "[\"名前\" * 20, \"ключ\" * 9]",
    "{\"ключ\" * 10: \"значение\" * 10}",
    "(\"é\" * 70, \"名\" * 33)",
    "\"%s %d {} {0} {x}\"",
    "\"a\" * 1000",
    "[]",
    "[1, 2, 3]",
    "[[]]",
    "[None, \"a\", 1.5]",
    "SELF_LIST",
    "()",
    "(1,)",
    "(1, \"a\", None)",
    "{}",
    "{\"a\": 1}",
    "{1: 2, \"k\": [3]}",
    "SELF_DICT",
    "set()",
    "set([1, 2])",
    "range(0)",
    "range(10)",
    "range(-5, 1000000, 7)",
    "struct()",
    "struct(a = 1, b = [2])",
    "REC(a = 1)",
    "REC",
    "EN(\"x\")",
    "EN",
    "len",
    "FUNC",
    "(lambda *a, **k: a)",
    "partial(FUNC, 1)",
    "int",
    "str",
    "list",
    "typing.Any",
    "list[int]",
    "json",
    "b\"bytes\"",
    "[1] * 1000",
    "\"x\".join",
    // the same kinds of values, frozen (loaded from another module): every level takes the frozen code paths
    "FZ_LIST",
    "FZ_DICT",
    "FZ_TUPLE",
    "FZ_STRUCT",
    "FZ_FUNC",
    "FZ_REC(a = 1)",
    "FZ_EN(\"x\")",
    "FZ_SET",
    "FZ_NESTED",
    "FZ_PARTIAL",
    "SELF_TUPLE",
    "SELF_STRUCT",
    // nesting well below the depth at which rendering overflows the native stack (open finding deep-nesting-native-recursion)
    "DEEP_LIST",
    "DEEP_DICT",
    "FZ_DEEP",
];

/// Library module frozen once per process; its exports are self-containing / nested / callable frozen values.
const HOSTILE_LIB: &str = r#"
FZ_LIST = [1]
FZ_LIST.append(FZ_LIST)
FZ_DICT = {"k": 1}
FZ_DICT["self"] = FZ_DICT
FZ_TUPLE = ([], {"d": []}, 3)
FZ_TUPLE[0].append(FZ_TUPLE)
FZ_TUPLE[1]["d"].append(FZ_TUPLE[1])
FZ_STRUCT = struct(a = [], b = "s")
FZ_STRUCT.a.append(FZ_STRUCT)
FZ_REC = record(a = int)
FZ_EN = enum("x", "y")
FZ_SET = set([1, "a", (2, 3)])
FZ_NESTED = [[[{"a": ([1, [2]], "é")}]], FZ_REC(a = 5), FZ_EN("y")]
def FZ_FUNC(*args, **kwargs):
    return (args, kwargs, FZ_LIST)
FZ_PARTIAL = partial(FZ_FUNC, FZ_DICT, k = FZ_TUPLE)
def _deep(n):
    x = ("leaf",)
    for i in range(n):
        x = [x] if i % 3 == 0 else ({"k": x} if i % 3 == 1 else (x, i))
    return x
FZ_DEEP = _deep(120)
"#;

pub fn hostile_lib() -> &'static starlark::environment::FrozenModule {
    static L: std::sync::OnceLock<starlark::environment::FrozenModule> = std::sync::OnceLock::new();
    L.get_or_init(|| sl::run_and_freeze("hostile.star", HOSTILE_LIB, &sl::RunCfg::default(), &[]).1.expect("hostile library must evaluate and freeze"))
}

pub const PRELUDE: &str = r#"
load("hostile.star", "FZ_LIST", "FZ_DICT", "FZ_TUPLE", "FZ_STRUCT", "FZ_FUNC", "FZ_REC", "FZ_EN", "FZ_SET", "FZ_NESTED", "FZ_PARTIAL", "FZ_DEEP")
DEEP_LIST = []
DEEP_DICT = {}
for _i in range(120):
    DEEP_LIST = [DEEP_LIST, _i]
    DEEP_DICT = {"k": DEEP_DICT}
SELF_TUPLE = ([],)
SELF_TUPLE[0].append(SELF_TUPLE)
SELF_STRUCT = struct(a = [])
SELF_STRUCT.a.append(SELF_STRUCT)
SELF_LIST = [1]
SELF_LIST.append(SELF_LIST)
SELF_DICT = {"k": 1}
SELF_DICT["self"] = SELF_DICT
REC = record(a = int)
EN = enum("x", "y")
def FUNC(*args, **kwargs):
    return (args, kwargs)
"#;

const PROBE: &str = r#"
_p = [i * 2 for i in range(5)]
_d = {"a": _p}
def _pf(x):
    _d["b"] = x
    return len(_d) + len(x)
emit((_pf(_p), _p, sorted(_d.keys()), "ok".upper()))
_p.append(99)
emit(_p)
"#;

/// Receivers for method calls, by type.
const RECEIVERS: &[&str] = &["\"a-b c\"", "[3, 1, 2]", "{\"a\": 1, \"b\": 2}", "(1, 2)", "set([1, 2])", "7", "2.5", "True", "None", "range(5)", "struct(a = 1)", "REC(a = 1)", "EN(\"x\")", "EN", "REC", "json", "typing", "SELF_LIST", "SELF_DICT", "b\"ab\"", "FZ_LIST", "FZ_DICT", "FZ_TUPLE", "FZ_STRUCT", "FZ_SET", "FZ_FUNC", "FZ_PARTIAL"];

fn callables() -> &'static Vec<String> {
    static C: std::sync::OnceLock<Vec<String>> = std::sync::OnceLock::new();
    C.get_or_init(|| {
        let mut v: Vec<String> = sl::globals().names().map(|n| n.as_str().to_owned()).filter(|n| !matches!(n.as_str(), "breakpoint" | "emit" | "opaque" | "catch" | "mark" | "probe")).collect();
        v.sort();
        // methods of every receiver, discovered at run time
        let mut src = String::from(PRELUDE);
        src.push_str("OUT = []\n");
        for r in RECEIVERS {
            src.push_str(&format!("OUT.append(dir({r}))\n"));
        }
        let out = sl::run_src_with("dir.star", &src, &sl::RunCfg::default(), &[("hostile.star", hostile_lib())], |m, _| {
            if let Some(l) = m.get("OUT").and_then(starlark::values::list::ListRef::from_value) {
                for (r, names) in RECEIVERS.iter().zip(l.iter()) {
                    if let Some(names) = starlark::values::list::ListRef::from_value(names) {
                        for n in names.iter() {
                            if let Some(n) = n.unpack_str() {
                                sl::tx_push(format!("({r}).{n}"));
                            }
                        }
                    }
                }
            }
        });
        v.extend(out.tx.into_iter());
        v
    })
}

#[derive(Debug)]
struct ErrCheck {
    problems: Vec<(String, String)>,
}

/// The located-error predicate.
fn check_error(e: &starlark::Error, files: &[(&str, &str)], probs: &mut Vec<(String, String)>, exempt_no_span: bool) {
    let kind = sl::error_kind_name(e);
    let msg = format!("{}", e.without_diagnostic());
    if kind == "Internal" {
        probs.push(("internal-error".into(), format!("ErrorKind::Internal: {msg}")));
    }
    let shown = format!("{e}");
    if shown.trim().is_empty() {
        probs.push(("empty-error".into(), "error displays as empty text".into()));
    }
    match e.span() {
        Some(fs) => {
            let src = fs.file.source();
            match files.iter().find(|(n, _)| *n == fs.filename()) {
                None => probs.push(("error-span".into(), format!("error span in file {:?} which is not one of the evaluated files; {msg}", fs.filename()))),
                Some((_, text)) => {
                    if *text != src {
                        probs.push(("error-span".into(), format!("error span's file content differs from the evaluated source ({}); {msg}", fs.filename())));
                    }
                    if !span_in_file(src, fs.span) {
                        probs.push(("error-span".into(), format!("error span {}..{} outside {} (len {}) or not on char boundaries; {msg}", fs.span.begin().get(), fs.span.end().get(), fs.filename(), src.len())));
                    }
                }
            }
        }
        None => {
            if !exempt_no_span && !is_limit(&msg) {
                probs.push(("error-without-span".into(), format!("error without a span: [{kind}] {msg}")));
            }
        }
    }
    for f in &e.call_stack().frames {
        if let Some(loc) = &f.location {
            if !span_in_file(loc.file.source(), loc.span) {
                probs.push(("error-span".into(), format!("call stack frame {} has span {}..{} outside its file", f.name, loc.span.begin().get(), loc.span.end().get())));
            }
            let _ = loc.resolve();
        }
    }
}

fn is_limit(msg: &str) -> bool {
    msg.contains("tick") || msg.contains("memory limit") || msg.contains("Memory limit") || msg.contains("cancelled") || msg.contains("too many") || msg.contains("stack overflow") || msg.contains("limit")
}

struct Session<'a> {
    steps: &'a [(String, String)], // (file name, source)
}

/// Runs the history on one evaluator/module; after every error checks recovery with the probe.
fn run_history(s: &Session, fresh_probe: &[String], r: &mut CaseResult) -> (usize, usize) {
    let cfg = sl::RunCfg { max_ticks: 300_000, max_heap: 256 << 20, ..Default::default() };
    let mut failures_followed_by_success = 0;
    let mut nerr = 0;
    Module::with_temp_heap(|module| {
        let printer = sl::PrintToTx;
        let mut lib_map: std::collections::HashMap<&str, &starlark::environment::FrozenModule> = std::collections::HashMap::new();
        lib_map.insert("hostile.star", hostile_lib());
        let loader = starlark::eval::ReturnFileLoader { modules: &lib_map };
        let mut eval = Evaluator::new(&module);
        eval.set_print_handler(&printer);
        eval.set_loader(&loader);
        sl::setup_eval(&mut eval, &cfg);
        // a cancellation request is pending during some steps (chosen from the step text): short modules are then ended by
        // the check at the end of the evaluation, longer ones by the periodic check - one more way for an evaluation to fail
        let cancel = std::rc::Rc::new(std::cell::Cell::new(false));
        {
            let c2 = cancel.clone();
            eval.set_check_cancelled(Box::new(move || c2.get()));
        }
        let files: Vec<(&str, &str)> = s.steps.iter().map(|(n, t)| (n.as_str(), t.as_str())).chain([("probe.star", PROBE), ("marker.star", "MARKER = [1, 2, 3]\n"), ("hostile.star", HOSTILE_LIB)]).collect();
        let mut last_failed = false;
        // a module variable defined before anything can fail
        let _ = eval.eval_module(sl::parse("marker.star", "MARKER = [1, 2, 3]\n", &cfg.dialect).unwrap(), sl::globals());
        for (name, src) in s.steps {
            r.evals += 1;
            let ast = match sl::parse(name, src, &cfg.dialect) {
                Ok(a) => a,
                Err(_) => continue, // syntactically invalid: C05's domain
            };
            sl::tx_reset();
            cancel.set(fnv(src.as_bytes()) % 6 == 0);
            let res = eval.eval_module(ast, sl::globals());
            cancel.set(false);
            match res {
                Ok(_) => {
                    if last_failed {
                        failures_followed_by_success += 1;
                    }
                    last_failed = false;
                }
                Err(e) => {
                    last_failed = true;
                    nerr += 1;
                    let mut probs = Vec::new();
                    check_error(&e, &files, &mut probs, false);
                    for (c, m) in probs {
                        r.fail(&c, format!("{m}\n--- {name}\n{src}"));
                    }
                    // recoverable: call stack empty, probe behaves as on a fresh evaluator, earlier variables intact
                    // the host may inspect the (now empty) call stack
                    let frames = std::panic::catch_unwind(std::panic::AssertUnwindSafe(|| eval.call_stack().frames.len()));
                    match frames {
                        Ok(0) => {}
                        Ok(n) => r.fail("callstack-not-empty", format!("Evaluator::call_stack() lists {n} frame(s) after the error `{}`\n--- {name}\n{src}", e.without_diagnostic())),
                        Err(p) => r.fail("call-stack-api-panics", format!("Evaluator::call_stack() panics after the error `{}`: {}\n--- {name}\n{src}", e.without_diagnostic(), panic_msg(&p))),
                    }
                    if eval.call_stack_count() != 0 {
                        r.fail("callstack-not-empty", format!("call_stack_count() = {} after the error `{}`\n--- {name}\n{src}", eval.call_stack_count(), e.without_diagnostic()));
                    }
                    sl::tx_reset();
                    let pr = eval.eval_module(sl::parse("probe.star", PROBE, &cfg.dialect).unwrap(), sl::globals());
                    let tx = sl::tx_take();
                    let limit_hit = pr.as_ref().err().map(|e| is_limit(&format!("{}", e.without_diagnostic()))).unwrap_or(false);
                    if !limit_hit && (pr.is_err() || tx != fresh_probe) {
                        r.fail(
                            "not-recoverable",
                            format!("after the error `{}` the probe program gives {:?} / {:?}, on a fresh evaluator {:?}\n--- {name}\n{src}", e.without_diagnostic(), pr.as_ref().map(|_| ()).map_err(|e| format!("{}", e.without_diagnostic())), tx, fresh_probe),
                        );
                    }
                    // every name the module knows (including names introduced by the failed evaluation) can be read
                    for n in module.names().map(|n| n.as_str().to_owned()).collect::<Vec<_>>() {
                        let _ = module.get(&n).map(|v| v.get_type());
                    }
                    let marker = module.get("MARKER").map(sl::encode);
                    if marker.as_deref() != Some("[1,2,3]") {
                        r.fail("not-recoverable", format!("module variable defined before the failing evaluation changed: {marker:?}\n--- {name}\n{src}"));
                    }
                }
            }
        }
    });
    (failures_followed_by_success, nerr)
}

fn fresh_probe_tx() -> Vec<String> {
    sl::run_src("probe.star", PROBE, &sl::RunCfg::default(), &[]).tx
}

/// Values that contain themselves (signature of the open finding `debug-builtin-cyclic-value`).
pub fn is_cyclic_pool(v: &str) -> bool {
    matches!(v, "SELF_LIST" | "SELF_DICT" | "SELF_TUPLE" | "SELF_STRUCT" | "FZ_LIST" | "FZ_DICT" | "FZ_TUPLE" | "FZ_STRUCT" | "FZ_PARTIAL" | "FZ_FUNC")
}

const EXH_MAGIC: u32 = 0xEEEE_EE07;

/// Enumerated part: every callable x every pool value as the single positional argument; indices beyond that range
/// address (callable, first argument, second argument) triples.
fn enumerated_call(idx: usize) -> Option<String> {
    let cs = callables();
    let n1 = cs.len() * POOL.len();
    if idx >= n1 {
        let j = idx - n1;
        let (ci, rest) = (j / (POOL.len() * POOL.len()), j % (POOL.len() * POOL.len()));
        let c = cs.get(ci)?;
        let (a, b) = (POOL[rest / POOL.len()], POOL[rest % POOL.len()]);
        // bounded repeat counts (see gen_snippet): a big count next to a sized value is replaced
        let b = if is_big_count(b) && is_sized(a) && (c.ends_with("__mul__") || c.contains("repeat")) { "3" } else { b };
        return Some(format!("emit({c}({a}, {b}))\n"));
    }
    let (ci, pi) = (idx / POOL.len(), idx % POOL.len());
    let c = cs.get(ci)?;
    Some(format!("emit({c}({}))\n", POOL[pi]))
}

fn gen_args(ch: &mut Choices) -> String {
    let npos = ch.idx(4);
    let mut parts: Vec<String> = (0..npos).map(|_| (*ch.pick(POOL)).to_owned()).collect();
    match ch.below(9) {
        8 => {
            // several named arguments at once (unknown, misplaced or duplicated-by-** names)
            let names = ["x", "key", "default", "reverse", "sep", "base", "start", "end", "a", "zz", "k1", "k2"];
            let n = 2 + ch.idx(3);
            let start = ch.idx(names.len());
            for i in 0..n {
                parts.push(format!("{}={}", names[(start + i * 5) % names.len()], ch.pick(POOL)));
            }
            if ch.bool() {
                parts.push("**{\"k3\": 1, \"k4\": 2, \"k5\": 3}".to_owned());
            }
        }
        0 => parts.push(format!("{}={}", ch.pick_s(&["x", "key", "default", "reverse", "sep", "base", "start", "end", "a"]), ch.pick(POOL))),
        1 => parts.push(format!("*{}", ch.pick(POOL))),
        2 => parts.push(format!("**{}", ch.pick_s(&["{\"x\": 1}", "{1: 2}", "{\"key\": len, \"key2\": 2}", "SELF_DICT", "[]", "None"]))),
        3 => {
            let k = ch.pick_s(&["x", "key", "reverse"]);
            parts.push(format!("{k}=1"));
            parts.push(format!("**{{\"{k}\": 2}}"));
        }
        _ => {}
    }
    parts.join(", ")
}

const BINOPS: &[&str] = &["+", "-", "*", "/", "//", "%", "&", "|", "^", "<<", ">>", "==", "!=", "<", "<=", ">", ">=", "in", "not in", "and", "or"];

fn is_big_count(s: &str) -> bool {
    // negative extremes count too: `range(-2**31, 8)` has 2**31 elements
    matches!(s, "2147483647" | "2147483648" | "-2147483648" | "-2147483649" | "9223372036854775807" | "9223372036854775808" | "-9223372036854775809" | "(1 << 200)" | "-(1 << 200)" | "1000000" | "1e308" | "float(\"inf\")")
}

fn is_sized(s: &str) -> bool {
    s.starts_with('"') || s.starts_with('[') || s.starts_with('(') || s.starts_with("b\"") || s == "SELF_LIST" || s == "FZ_LIST" || s == "FZ_TUPLE" || s == "FZ_NESTED" || s == "SELF_TUPLE" || s == "FZ_DEEP" || s == "DEEP_LIST" || s.starts_with('{')
}

/// One ill-typed snippet (a statement) built from the hostile pool.
pub fn gen_snippet(ch: &mut Choices) -> String {
    let cs = callables();
    match ch.weighted(&[10, 5, 2, 2, 2, 2]) {
        0 => {
            let c = &cs[ch.idx(cs.len())];
            format!("emit({c}({}))", gen_args(ch))
        }
        1 => {
            let (a, b) = (*ch.pick(POOL), *ch.pick(POOL));
            let op = *ch.pick(BINOPS);
            // bounded repeat / shift counts (the property's "huge-but-bounded")
            if (op == "*" && ((is_big_count(a) && is_sized(b)) || (is_big_count(b) && is_sized(a)))) || (op == "<<" && is_big_count(b)) || (op == "*" && a == "(1 << 200)" && b == "(1 << 200)") {
                format!("emit({a} == {b})")
            } else {
                format!("emit({a} {op} {b})")
            }
        }
        2 => {
            let (a, b, c, d) = (*ch.pick(POOL), *ch.pick(POOL), *ch.pick(POOL), *ch.pick(POOL));
            match ch.below(4) {
                0 => format!("emit({a}[{b}])"),
                1 => format!("emit({a}[{b}:{c}])"),
                2 => format!("emit({a}[{b}:{c}:{d}])"),
                _ => format!("emit(({a}).{})", ch.pick_s(&["x", "a", "append", "real", "keys", "__class__"])),
            }
        }
        3 => {
            let (a, b) = (*ch.pick(POOL), *ch.pick(POOL));
            match ch.below(5) {
                0 => format!("x7 = {a}\nx7[{b}] = {b}"),
                1 => format!("x7 = {a}\nx7.a = {b}"),
                2 => format!("x7 = {a}\nx7 += {b}\nemit(x7)"),
                3 => format!("x7, y7 = {a}"),
                _ => format!("for i7 in {a}:\n    emit(i7)\n    break"),
            }
        }
        4 => {
            let (a, b) = (*ch.pick(POOL), *ch.pick(POOL));
            match ch.below(5) {
                0 => format!("emit([x for x in {a} if x == {b}])"),
                1 => format!("emit({{x: {b} for x in {a}}})"),
                2 => format!("emit(-{a})\nemit(~{b})"),
                3 => format!("emit(\"%s %r\" % ({a}, {b}))\nemit(\"{{}} {{!r}}\".format({a}, {b}))"),
                _ => format!("emit(str({a}) + repr({b}) + json.encode({a}))"),
            }
        }
        _ => {
            // failure at depth inside nested calls / loops / comprehensions / native callbacks
            let a = *ch.pick(POOL);
            let depth = 1 + ch.idx(6);
            let how = ch.below(4);
            let inner = match how {
                0 => format!("[fail(\"deep\") for q in [1]] if d == 0 else rec7(d - 1)"),
                1 => format!("sorted([3, 1, 2], key = lambda k: k // d) if d == 0 else rec7(d - 1)"),
                2 => format!("list(map(lambda k: k + {a}, [1])) if d == 0 else rec7(d - 1)"),
                _ => format!("({a})[d] if d == 0 else [rec7(d - 1) for q in range(2)]"),
            };
            format!("def rec7(d):\n    return {inner}\nemit(rec7({depth}))")
        }
    }
}

impl Prop for C07 {
    fn id(&self) -> &'static str {
        "C07"
    }
    fn cases(&self, tier: Tier) -> u64 {
        match tier {
            Tier::Quick => 20_000,
            Tier::Thorough => 600_000,
        }
    }
    fn choice_len(&self, _tier: Tier) -> (usize, usize) {
        (10, 500)
    }
    fn rule(&self) -> String {
        "Case = history of 1..8 evaluations on ONE evaluator+module. Each step is (a) a call of a global function or of a method of a builtin value (all names discovered at run time from Globals::names and dir() of 20 receivers) with argument tuples from a hostile pool (extreme ints around +-2^31/2^63/2^200, bounded repeat counts, None, floats incl. nan/inf, empty/nested/self-containing containers, records/enums/types/functions, wrong arities, unknown/duplicated/non-string keywords via **), (b) an operator, index, slice, attribute, assignment, unpacking, loop, comprehension or formatting over the same pool, (c) a failure at a generated depth inside nested calls / comprehensions / native callbacks, (c') a cancellation request pending during one step in six (ended by the end-of-evaluation or the periodic check), or (d) a type-directed program in which proptest replaced constants by pool values. Oracle (validity): every evaluation returns Ok or Err, no panic/abort (worker isolation); ErrorKind::Internal is a violation; an error's span lies in one of the evaluated files on char boundaries, call-stack frames resolve, Display works; after every Err call_stack_count() == 0, a fixed probe program gives the same transcript as on a fresh evaluator, and a module variable defined earlier is intact. Resource-limit errors are legal outcomes. evaluations = evaluation steps. Non-trivial = the history contains a failure followed by a successful evaluation; distinct = distinct history text.".into()
    }
    fn assumptions(&self) -> Vec<String> {
        vec![
            "repeat and shift counts are bounded (sequence * count and << with counts above 10^6 are replaced) so that legal huge allocations do not masquerade as crashes".into(),
            "errors that carry no span are reported only if they are not resource-limit errors".into(),
        ]
    }
    fn floors(&self) -> Vec<(&'static str, f64)> {
        vec![("fail_then_ok", 0.25), ("has_error", 0.6)]
    }
    fn render(&self, _ctx: &mut Ctx, ch: &mut Choices) -> String {
        gen_history_or_enumerated(ch).iter().skip(1).map(|(n, s)| format!("# --- {n}\n{s}")).collect::<Vec<_>>().join("")
    }
    fn has_exhaustive(&self) -> bool {
        true
    }
    fn exhaustive(&self, ctx: &mut Ctx, sink: &mut dyn FnMut(CaseResult)) {
        let n = callables().len() * POOL.len();
        for i in 0..n {
            if i % ctx.workers != ctx.worker {
                continue;
            }
            let v = [EXH_MAGIC, i as u32];
            note_current(&v);
            let mut r = run_case_caught(self, ctx, &v);
            if r.sample.starts_with("<harness-level panic") {
                r.sample = format!("{}{}", r.sample, enumerated_call(i).unwrap_or_default());
            }
            r.replay = v.to_vec();
            sink(r);
        }
        // two positional arguments: all pairs in thorough, a fixed 1-in-13 stride in quick
        let n2 = callables().len() * POOL.len() * POOL.len();
        let stride = if ctx.tier == Tier::Thorough { 1 } else { 13 };
        let mut j = ctx.worker * stride;
        while j < n2 {
            let v = [EXH_MAGIC, (n + j) as u32];
            note_current(&v);
            let mut r = run_case_caught(self, ctx, &v);
            if r.sample.starts_with("<harness-level panic") {
                r.sample = format!("{}{}", r.sample, enumerated_call(n + j).unwrap_or_default());
            }
            r.replay = v.to_vec();
            sink(r);
            j += ctx.workers * stride;
        }
    }
    fn known_probe(&self, _ctx: &mut Ctx, sig: &str) -> Option<(bool, String)> {
        // each probe runs in its own process (it dies when the finding is still there); reaching the end = repaired
        let src = match sig {
            "debug-builtin-cyclic-value" => "x = [1]\nx.append(x)\nemit(len(debug(x)))\n",
            "deep-nesting-native-recursion" => "x = []\nfor i in range(5000):\n    x = [x]\nemit(len(json.encode(x)))\ny = []\nfor i in range(3000000):\n    y = [y]\nemit(len(repr(y)))\n",
            _ => return None,
        };
        let cfg = sl::RunCfg { max_ticks: 50_000_000, max_heap: 2 << 30, ..Default::default() };
        let out = sl::run_src("probe.star", src, &cfg, &[]);
        Some((false, format!("probe completed without a crash: {:?}", out.result.map(|_| ()).map_err(|e| e.msg))))
    }
    fn run(&self, ctx: &mut Ctx, ch: &mut Choices) -> CaseResult {
        let mut steps = gen_history_or_enumerated(ch);
        // open known findings are excluded by construction (counted), so that the search continues behind them
        let mut excluded = 0u64;
        if ctx.is_open("debug-builtin-cyclic-value") {
            for (_, src) in steps.iter_mut().skip(1) {
                if src.contains("debug(") && POOL.iter().any(|v| is_cyclic_pool(v) && src.contains(v)) {
                    *src = "emit(0)\n".to_owned();
                    excluded += 1;
                }
            }
        }
        let text = steps.iter().skip(1).map(|(n, s)| format!("# --- {n}\n{s}")).collect::<Vec<_>>().join("");
        let mut r = CaseResult::new(text);
        r.evals = 0;
        r.excluded_known = excluded;
        let fresh = fresh_probe_tx();
        let (fto, nerr) = run_history(&Session { steps: &steps }, &fresh, &mut r);
        if fto > 0 {
            r.label("fail_then_ok");
            r.nontrivial_self();
        }
        r.evals = r.evals.max(1);
        if nerr > 0 {
            r.label("has_error");
        }
        r
    }
}

fn gen_history_or_enumerated(ch: &mut Choices) -> Vec<(String, String)> {
    let first = ch.raw();
    if first == EXH_MAGIC {
        let idx = ch.raw() as usize;
        let n = callables().len() * POOL.len() * (1 + POOL.len());
        return vec![("prelude.star".to_owned(), PRELUDE.to_owned()), ("call.star".to_owned(), enumerated_call(idx % n.max(1)).unwrap_or_default())];
    }
    gen_history(ch)
}

fn gen_history(ch: &mut Choices) -> Vec<(String, String)> {
    {
        let nsteps = 1 + ch.idx(8);
        let mut steps: Vec<(String, String)> = vec![("prelude.star".into(), PRELUDE.to_owned())];
        for i in 0..nsteps {
            let src = match ch.weighted(&[8, 2, 2]) {
                0 => gen_snippet(ch) + "\n",
                1 => "ok7 = [1, 2]\nok7.append(3)\nemit(ok7)\n".to_owned(),
                _ => {
                    // type-directed program with constants replaced by hostile values
                    let opts = prog::Opts { profile: prog::Profile::Full, max_stmts: 8, fail_pct: 20, ..Default::default() };
                    let marked = {
                        let mut g = prog::Gen::new(ch, opts);
                        g.program()
                    };
                    let (nc, _) = prog::count_markers(&marked);
                    // constants may sit in repeat / shift count positions: only bounded values are substituted there
                    let repl: Vec<Option<&str>> = (0..nc)
                        .map(|_| {
                            if ch.chance(1, 5) {
                                let v = *ch.pick(POOL);
                                if is_big_count(v) {
                                    Some("1000")
                                } else if (is_sized(v) || v.contains("range(") || v.contains("SELF_") || v.contains("FZ_") || v.contains("* 1000")) && !matches!(v, "[]" | "()" | "\"\"" | "{}") {
                                    // a non-empty sequence substituted next to `* <variable>` would multiply into gigabytes
                                    Some("[]")
                                } else {
                                    Some(v)
                                }
                            } else {
                                None
                            }
                        })
                        .collect();
                    wild_render(&marked, &repl)
                }
            };
            steps.push((format!("step{i}.star"), src));
        }
        steps
    }
}

/// Renders marked text replacing the i-th constant by the given pool value (callee markers are dropped).
fn wild_render(marked: &str, repl: &[Option<&str>]) -> String {
    let mut out = String::new();
    let mut ci = 0usize;
    let mut skipping = false;
    for c in marked.chars() {
        match c {
            prog::C_OPEN => {
                if let Some(Some(r)) = repl.get(ci) {
                    out.push('(');
                    out.push_str(r);
                    out.push(')');
                    skipping = true;
                }
                ci += 1;
            }
            prog::C_CLOSE => skipping = false,
            prog::F_OPEN | prog::F_CLOSE => {}
            c => {
                if !skipping {
                    out.push(c)
                }
            }
        }
    }
    out
}
