//! C03 — garbage collection is invisible and never loses or corrupts a live value.
//! Metamorphic over GC schedules (hook H1) with poisoned freed arenas (hook H2).

use starlark::environment::Module;
use starlark::eval::Evaluator;

use crate::engine::*;
use crate::prog;
use crate::props::c01::classify_starlark_error;
use crate::sl;

pub struct C03;

#[derive(Clone, Copy, Debug, PartialEq)]
enum Sched {
    Never,
    Default,
    Every(u64),
    Mask(u64),
}

#[derive(Debug, Clone, PartialEq)]
struct Obs {
    tx: Vec<String>,
    classes: Vec<String>,
    vars: Vec<(String, String)>,
    extra: String,
}

const PRELUDE: &str = r#"
gc_cyc = [1, "two"]
gc_cyc.append(gc_cyc)
gc_d = {"self": None, "list": gc_cyc}
gc_d["self"] = gc_d
gc_shared = [10, 20]
gc_alias = (gc_shared, gc_shared, {"k": gc_shared})
def gc_make_counter(start):
    box = [start]
    def bump(n):
        box[0] += n
        box.append(str(box[0]) * 2)
        return box
    return bump
gc_bump = gc_make_counter(5)
gc_partial = [x * 3 for x in range(4)]
"#;

const EPILOGUE: &str = r#"
gc_partial.append(len(gc_partial))
emit(gc_bump(2))
emit((len(gc_cyc), gc_cyc[2][1], gc_d["self"]["list"][0]))
gc_shared.append(30)
emit(gc_alias)
emit(gc_partial)
emit(host_list)
host_list.append(len(host_list))
emit(host_dict)
"#;


// ---- generated heap shapes ---------------------------------------------------------------------------------
// A random object graph built by top-level statements (each one a GC safepoint): nodes of every container kind,
// immutable ones (tuple, struct, record) carrying fresh inline mutable children, closures holding boxes; edges added
// afterwards through paths, so that cycles run through any kind and may be reachable only through an immutable root;
// root slots pre-declared in generated order (the collector walks module slots in order); roots dropped so that nodes
// stay alive only through other nodes; mutation through one alias observed through the others.

#[derive(Clone)]
struct Node {
    name: String,
    alive: bool,
    is_fn: bool,
    list_paths: Vec<String>,
    dict_paths: Vec<String>,
}

struct GraphGen<'a, 'c> {
    ch: &'a mut Choices<'c>,
    nodes: Vec<Node>,
    out: String,
    labels: Vec<&'static str>,
}

impl<'a, 'c> GraphGen<'a, 'c> {
    fn atom(&mut self) -> String {
        match self.ch.below(6) {
            0 => format!("{}", self.ch.range(-3, 99)),
            1 => format!("\"s{}\"", self.ch.below(9)),
            2 => "None".to_owned(),
            3 => format!("{}", 1i64 << self.ch.range(31, 62)),
            4 => "\"x\" * 20".to_owned(),
            _ => "True".to_owned(),
        }
    }
    /// An element expression: atom, reference to a live node, or a fresh inline mutable child (whose path is recorded).
    fn elem(&mut self, path: &str, lp: &mut Vec<String>, dp: &mut Vec<String>) -> String {
        let live: Vec<String> = self.nodes.iter().filter(|n| n.alive).map(|n| n.name.clone()).collect();
        match self.ch.weighted(&[3, if live.is_empty() { 0 } else { 4 }, 2, 1]) {
            0 => self.atom(),
            1 => live[self.ch.idx(live.len())].clone(),
            2 => {
                lp.push(path.to_owned());
                "[]".to_owned()
            }
            _ => {
                dp.push(path.to_owned());
                "{}".to_owned()
            }
        }
    }
    fn new_node(&mut self, idx: usize) {
        let name = format!("g{idx}");
        let mut lp = Vec::new();
        let mut dp = Vec::new();
        let mut is_fn = false;
        let n = 1 + self.ch.idx(3);
        let expr = match self.ch.below(7) {
            0 => {
                let mut parts = Vec::new();
                for i in 0..n {
                    parts.push(self.elem(&format!("{name}[{i}]"), &mut lp, &mut dp));
                }
                lp.push(name.clone());
                format!("[{}]", parts.join(", "))
            }
            1 => {
                let mut parts = Vec::new();
                for i in 0..n {
                    let e = self.elem(&format!("{name}[\"k{i}\"]"), &mut lp, &mut dp);
                    parts.push(format!("\"k{i}\": {e}"));
                }
                dp.push(name.clone());
                format!("{{{}}}", parts.join(", "))
            }
            2 | 3 => {
                self.labels.push("graph_tuple");
                let mut parts = Vec::new();
                for i in 0..n {
                    parts.push(self.elem(&format!("{name}[{i}]"), &mut lp, &mut dp));
                }
                format!("({},)", parts.join(", "))
            }
            4 => {
                self.labels.push("graph_struct");
                let mut parts = Vec::new();
                for i in 0..n {
                    let e = self.elem(&format!("{name}.f{i}"), &mut lp, &mut dp);
                    parts.push(format!("f{i} = {e}"));
                }
                format!("struct({})", parts.join(", "))
            }
            5 => {
                self.labels.push("graph_record");
                let a = self.elem(&format!("{name}.a"), &mut lp, &mut dp);
                let b = self.elem(&format!("{name}.b"), &mut lp, &mut dp);
                format!("GRec(a = {a}, b = {b})")
            }
            _ => {
                // closure over a box; the box is reachable only through the function
                self.labels.push("graph_closure");
                is_fn = true;
                let mut l2 = Vec::new();
                let mut d2 = Vec::new();
                let e = self.elem("", &mut l2, &mut d2);
                let e = if e == "[]" || e == "{}" { self.atom() } else { e };
                lp.push(format!("{name}()"));
                format!("(lambda box: lambda: box)([{e}])")
            }
        };
        self.out.push_str(&format!("{name} = {expr}\n"));
        // a pre-declared node replaces the placeholder entry
        if let Some(n) = self.nodes.iter_mut().find(|n| n.name == name) {
            n.alive = true;
            n.is_fn = is_fn;
            n.list_paths = lp;
            n.dict_paths = dp;
        } else {
            self.nodes.push(Node { name, alive: true, is_fn, list_paths: lp, dict_paths: dp });
        }
    }
    fn target(&mut self) -> Option<String> {
        let live: Vec<&Node> = self.nodes.iter().filter(|n| n.alive).collect();
        if live.is_empty() {
            return None;
        }
        let n = live[self.ch.idx(live.len())];
        // the node itself, or one of its inline children
        let mut opts: Vec<String> = vec![n.name.clone()];
        opts.extend(n.list_paths.iter().cloned());
        opts.extend(n.dict_paths.iter().cloned());
        Some(opts[self.ch.idx(opts.len())].clone())
    }
    fn edge(&mut self) {
        let lists: Vec<String> = self.nodes.iter().filter(|n| n.alive).flat_map(|n| n.list_paths.iter().cloned()).collect();
        let dicts: Vec<String> = self.nodes.iter().filter(|n| n.alive).flat_map(|n| n.dict_paths.iter().cloned()).collect();
        let Some(q) = self.target() else { return };
        let use_dict = !dicts.is_empty() && (lists.is_empty() || self.ch.chance(1, 3));
        if use_dict {
            let p = dicts[self.ch.idx(dicts.len())].clone();
            let k = self.ch.below(4);
            self.out.push_str(&format!("{p}[\"e{k}\"] = {q}\n"));
        } else if !lists.is_empty() {
            let p = lists[self.ch.idx(lists.len())].clone();
            self.out.push_str(&format!("{p}.append({q})\n"));
        }
    }
    fn emit_all(&mut self) {
        for n in self.nodes.iter().filter(|n| n.alive) {
            if n.is_fn {
                self.out.push_str(&format!("emit({}())\n", n.name));
            } else {
                self.out.push_str(&format!("emit({})\n", n.name));
            }
        }
    }
    fn build(&mut self) {
        let n = 2 + self.ch.idx(7);
        self.out.push_str("GRec = record(a = typing.Any, b = typing.Any)\n");
        // pre-declare some roots in generated order: fixes the module slot order independently of creation order
        let npre = self.ch.idx(n + 1);
        let mut order: Vec<usize> = (0..n).collect();
        for i in (1..order.len()).rev() {
            let j = self.ch.idx(i + 1);
            order.swap(i, j);
        }
        for &i in order.iter().take(npre) {
            self.out.push_str(&format!("g{i} = None\n"));
            self.nodes.push(Node { name: format!("g{i}"), alive: false, is_fn: false, list_paths: Vec::new(), dict_paths: Vec::new() });
        }
        if npre > 0 {
            self.labels.push("graph_predeclared");
        }
        for i in 0..n {
            self.new_node(i);
            if self.ch.chance(1, 3) {
                self.edge();
            }
        }
        let ne = 1 + self.ch.idx(2 * n);
        for _ in 0..ne {
            match self.ch.weighted(&[8, 2, 1]) {
                0 => self.edge(),
                1 => {
                    let live: Vec<String> = self.nodes.iter().filter(|n| n.alive && !n.is_fn).map(|n| n.name.clone()).collect();
                    if !live.is_empty() {
                        let v = live[self.ch.idx(live.len())].clone();
                        self.out.push_str(&format!("emit({v})\n"));
                    }
                }
                _ => {
                    // drop a root: the node stays alive only if something else points at it
                    let live: Vec<usize> = self.nodes.iter().enumerate().filter(|(_, n)| n.alive).map(|x| x.0).collect();
                    if live.len() > 1 {
                        let i = live[self.ch.idx(live.len())];
                        self.nodes[i].alive = false;
                        self.out.push_str(&format!("{} = None\n", self.nodes[i].name));
                        self.labels.push("graph_root_dropped");
                    }
                }
            }
        }
        self.emit_all();
        // mutation through one path must be visible through every alias after further collections
        let lists: Vec<String> = self.nodes.iter().filter(|n| n.alive).flat_map(|n| n.list_paths.iter().cloned()).collect();
        for (i, p) in lists.iter().enumerate().take(4) {
            self.out.push_str(&format!("{p}.append(\"m{i}\")\n"));
        }
        self.emit_all();
    }
}

fn gen_graph(ch: &mut Choices) -> (String, Vec<&'static str>) {
    let mut g = GraphGen { ch, nodes: Vec::new(), out: String::new(), labels: Vec::new() };
    g.build();
    (g.out, g.labels)
}

/// Split a program into up to `n` chunks at top-level statement boundaries.
fn split_chunks(plain: &str, n: usize) -> Vec<String> {
    let lines: Vec<&str> = plain.lines().collect();
    // statement starts: unindented lines that are not continuation keywords
    let starts: Vec<usize> = lines
        .iter()
        .enumerate()
        .filter(|(_, l)| !l.starts_with(' ') && !l.is_empty() && !l.starts_with("elif ") && !l.starts_with("else:"))
        .map(|x| x.0)
        .collect();
    if n <= 1 || starts.len() < 2 {
        return vec![plain.to_owned()];
    }
    let mut cuts: Vec<usize> = (1..n).map(|k| starts[(starts.len() * k / n).min(starts.len() - 1)]).collect();
    cuts.dedup();
    let mut out = Vec::new();
    let mut prev = 0;
    for c in cuts {
        if c > prev {
            out.push(lines[prev..c].join("\n") + "\n");
            prev = c;
        }
    }
    out.push(lines[prev..].join("\n") + "\n");
    out
}

fn run_sched(chunks: &[String], sched: Sched, host_between: bool) -> (Obs, u64, u64) {
    use starlark::__verif as hook;
    sl::tx_reset();
    hook::set_gc_every(0);
    hook::set_gc_mask(0);
    match sched {
        Sched::Every(k) => hook::set_gc_every(k),
        Sched::Mask(m) => hook::set_gc_mask(m),
        _ => {}
    }
    hook::reset_gc_counters();
    let cfg = sl::RunCfg { disable_gc: sched == Sched::Never, ..Default::default() };
    let r = Module::with_temp_heap(|module| {
        let mut classes = Vec::new();
        {
            let heap = module.heap();
            // values the embedder stores in the module
            let hl = heap.alloc(vec![heap.alloc("host"), heap.alloc(7), heap.alloc(vec![1, 2])]);
            module.set("host_list", hl);
            let hd = heap.alloc(starlark::values::dict::AllocDict([("a", hl), ("b", heap.alloc("x".repeat(40)))]));
            module.set("host_dict", hd);
            module.set_extra_value(heap.alloc((hl, "extra", heap.alloc(vec![9, 8, 7]))));
            let printer = sl::PrintToTx;
            let mut eval = Evaluator::new(&module);
            eval.set_print_handler(&printer);
            sl::setup_eval(&mut eval, &cfg);
            for (i, c) in chunks.iter().enumerate() {
                let ast = match sl::parse("gc.star", c, &cfg.dialect) {
                    Ok(a) => a,
                    Err(e) => {
                        classes.push(format!("parse:{e}"));
                        break;
                    }
                };
                match eval.eval_module(ast, sl::globals()) {
                    Ok(_) => classes.push("ok".to_owned()),
                    Err(e) => {
                        classes.push(classify_starlark_error(&sl::err_info(&e)));
                        // a failing chunk ends this history (later chunks may depend on it)
                        break;
                    }
                }
                if host_between && i + 1 < chunks.len() {
                    // host action between evaluations on the same module
                    let heap = module.heap();
                    if let Some(hl) = module.get("host_list") {
                        let v = heap.alloc(vec![hl, heap.alloc(format!("between-{i}"))]);
                        module.set("host_between", v);
                    }
                }
            }
        }
        let vars = sl::module_vars(&module).into_iter().filter(|(_, v)| !v.starts_with("o:function")).collect();
        let extra = module.extra_value().map(sl::encode).unwrap_or_default();
        Obs { tx: sl::tx_take(), classes, vars, extra }
    });
    let (sp, col) = (hook::gc_safepoints(), hook::gc_collections());
    hook::set_gc_every(0);
    hook::set_gc_mask(0);
    (r, sp, col)
}

impl Prop for C03 {
    fn id(&self) -> &'static str {
        "C03"
    }
    fn cases(&self, tier: Tier) -> u64 {
        match tier {
            Tier::Quick => 60_000,
            Tier::Thorough => 400_000,
        }
    }
    fn choice_len(&self, _tier: Tier) -> (usize, usize) {
        (30, 900)
    }
    fn rule(&self) -> String {
        "Case = program from the typed generator (profile full, up to 40 statements, most of them top-level = GC safepoints) between a prelude that builds cyclic and aliased structures, a closure holding a growing container and a partially built list, and an epilogue that reads all of them back; embedder-set module variables (host_list, host_dict) and extra_value; the program is evaluated as 1..3 consecutive eval_module calls on one module/evaluator with a host Module::set in between. Schedules: GC disabled; default threshold; forced collection at every k-th safepoint for k in {1,2,3,7}; a proptest-chosen 64-bit mask of safepoints. Freed arenas are overwritten with 0x5A (hook H2) so that a missed root is observable. Oracle: transcript, per-chunk outcome, final public globals and extra_value identical across schedules; worker crash = violation. evaluations = schedule runs. Non-trivial = at least one forced collection ran while values created before it were read after it (>= 1 collection and >= 5 emits); distinct = distinct program text x chunking.".into()
    }
    fn assumptions(&self) -> Vec<String> {
        vec![
            "collections are forced only at the safepoints the evaluator itself offers (possible_gc), through the cfg(starlark_verif) hook".into(),
            "re-entrant eval_module from natives is not exercised (stmt.rs documents it as unsafe for GC)".into(),
        ]
    }
    fn floors(&self) -> Vec<(&'static str, f64)> {
        vec![("collected", 0.8), ("multi_chunk", 0.15), ("def", 0.25)]
    }
    fn render(&self, _ctx: &mut Ctx, ch: &mut Choices) -> String {
        let opts = prog::Opts { profile: prog::Profile::Full, max_stmts: 40, fail_pct: 15, ..Default::default() };
        let body = {
            let mut g = prog::Gen::new(ch, opts);
            prog::render_plain(&g.program())
        };
        let (graph, _) = gen_graph(ch);
        if ch.chance(1, 4) { format!("{PRELUDE}{graph}{EPILOGUE}") } else if ch.bool() { format!("{PRELUDE}{graph}{body}{EPILOGUE}") } else { format!("{PRELUDE}{body}{graph}{EPILOGUE}") }
    }
    fn run(&self, _ctx: &mut Ctx, ch: &mut Choices) -> CaseResult {
        let opts = prog::Opts { profile: prog::Profile::Full, max_stmts: 40, fail_pct: 15, ..Default::default() };
        let mut g = prog::Gen::new(ch, opts);
        let marked = g.program();
        let labels = g.labels.clone();
        let body = prog::render_plain(&marked);
        let (graph, glabels) = gen_graph(ch);
        let plain = if ch.chance(1, 4) { format!("{PRELUDE}{graph}{EPILOGUE}") } else if ch.bool() { format!("{PRELUDE}{graph}{body}{EPILOGUE}") } else { format!("{PRELUDE}{body}{graph}{EPILOGUE}") };
        let nchunks = 1 + ch.idx(3);
        let host_between = ch.bool();
        let mask = ch.u64();
        let chunks = split_chunks(&plain, nchunks);
        let mut r = CaseResult::new(format!("[{} chunk(s), host_between={host_between}, mask={mask:#x}]\n{plain}", chunks.len()));
        for l in &labels {
            r.label(l);
        }
        for l in glabels {
            r.label(l);
        }
        if chunks.len() > 1 {
            r.label("multi_chunk");
        }
        let (base, _, _) = run_sched(&chunks, Sched::Never, host_between);
        if base.classes.iter().any(|c| c == "limit") {
            r.label("skipped_limit");
            return r;
        }
        if let Some(c) = base.classes.iter().find(|c| c.starts_with("parse:")) {
            r.fail("generator-bug", format!("{c}\n{plain}"));
            return r;
        }
        let scheds = [Sched::Default, Sched::Every(1), Sched::Every(2), Sched::Every(3), Sched::Every(7), Sched::Mask(mask)];
        let mut collections = 0;
        r.evals = 1;
        for s in scheds {
            let (o, _sp, col) = run_sched(&chunks, s, host_between);
            r.evals += 1;
            collections += col;
            if o.classes.iter().any(|c| c == "limit") {
                r.label("skipped_limit");
                continue;
            }
            if o != base {
                let what = if o.tx != base.tx {
                    let i = (0..o.tx.len().max(base.tx.len())).find(|i| o.tx.get(*i) != base.tx.get(*i)).unwrap_or(0);
                    format!("transcript differs at emit #{i}: {:?} vs {:?} without GC", o.tx.get(i).map(|s| truncate(s, 300)), base.tx.get(i).map(|s| truncate(s, 300)))
                } else if o.classes != base.classes {
                    format!("outcomes differ: {:?} vs {:?} without GC", o.classes, base.classes)
                } else if o.extra != base.extra {
                    format!("extra_value differs: {} vs {}", truncate(&o.extra, 300), truncate(&base.extra, 300))
                } else {
                    let d = o.vars.iter().zip(base.vars.iter()).find(|(a, b)| a != b);
                    format!("final globals differ: {:?}", d.map(|(a, b)| (truncate(&a.1, 200), truncate(&b.1, 200))))
                };
                r.fail("gc-visible", format!("schedule {s:?} ({col} collections): {what}\n{plain}"));
            }
        }
        if collections > 0 {
            r.label("collected");
            if base.tx.len() >= 5 {
                r.nontrivial.push(fnv(format!("{}|{}", chunks.len(), plain).as_bytes()));
            }
        }
        r
    }
}
