//! C20 — frozen modules are safe to share: concurrent use equals sequential use.
//! Each case runs in fresh processes (so that lazily initialised globals are really uninitialised):
//! one sequential reference process and several concurrent ones with different thread schedules.

use std::process::Command;
use std::process::Stdio;
use std::sync::Arc;
use std::sync::Barrier;
use std::sync::Mutex;

use serde_json::Value as J;
use serde_json::json;
use starlark::environment::FrozenModule;
use starlark::environment::Globals;

use crate::engine::*;
use crate::sl;

pub struct C20;

const M0: &str = r#"
Rec = record(a = int, b = str)
En = enum("x", "y", "z")
DATA = {"k%d" % i: [i, str(i) * 3] for i in range(50)}
STRS = ["s%d" % i for i in range(40)]
def fib(n):
    return n if n < 2 else fib(n - 1) + fib(n - 2)
def mk(i):
    return Rec(a = i, b = str(i))
def table(n):
    return {str(i): [j * i for j in range(n)] for i in range(n)}
def joiner(xs):
    return "-".join([str(x) for x in xs])
"#;

const M1: &str = r#"
load("m0.star", "Rec", "En", "DATA", "STRS", "fib", "mk", "table", "joiner")
def use(i):
    r = mk(i)
    return (r.a + fib(i % 12), En(["x", "y", "z"][i % 3]).index, DATA["k%d" % (i % 50)], hash(STRS[i % 40]), joiner(table(i % 4).keys()))
def typed(x: int, y: list[str]) -> dict[str, int]:
    return {s: x for s in y}
def check(v):
    return (isinstance(v, Rec), isinstance(v, int | str), isinstance(v, list[int]), type(v))
SHARED = [mk(i) for i in range(10)]
"#;

const M2: &str = r#"
load("m1.star", "use", "typed", "check", "SHARED")
def deep(i):
    return [use(j) for j in range(i % 5)]
adder = lambda a, b = 3: a + b + len(SHARED)
def part(i):
    return partial(adder, i)(b = i)
def describe(i):
    return (str(SHARED[i % 10]), repr(SHARED[(i + 1) % 10]), json.encode({"v": [i, None, "s"]}), check(SHARED[i % 10]), check(i), "{}-{!r}".format(i, "q"), "%s|%d" % ("z", i))
"#;

fn build_shared() -> Vec<(String, FrozenModule)> {
    let cfg = sl::RunCfg::default();
    let (_, m0) = sl::run_and_freeze("m0.star", M0, &cfg, &[]);
    let m0 = m0.expect("m0");
    let (_, m1) = sl::run_and_freeze("m1.star", M1, &cfg, &[("m0.star", &m0)]);
    let m1 = m1.expect("m1");
    let (_, m2) = sl::run_and_freeze("m2.star", M2, &cfg, &[("m1.star", &m1)]);
    let m2 = m2.expect("m2");
    vec![("m0.star".into(), m0), ("m1.star".into(), m1), ("m2.star".into(), m2)]
}

/// One workload step: (kind, argument).
type Step = (u32, u32);

fn run_step(step: Step, shared: &[(String, FrozenModule)], drop_box: &Mutex<Vec<FrozenModule>>, out: &mut Vec<String>) {
    let (kind, k) = step;
    let loads: Vec<(&str, &FrozenModule)> = shared.iter().map(|(n, m)| (n.as_str(), m)).collect();
    let cfg = sl::RunCfg::default();
    let snippet = |src: String, out: &mut Vec<String>| {
        let o = sl::run_src("t.star", &src, &cfg, &loads);
        out.extend(o.tx);
        match o.result {
            Ok(v) => out.push(format!("ok {v}")),
            Err(e) => out.push(format!("err {}", e.msg)),
        }
    };
    match kind % 8 {
        0 => snippet(format!("load(\"m2.star\", \"deep\", \"part\")\nemit(deep({k}))\nemit(part({k}))\n"), out),
        1 => snippet(format!("load(\"m1.star\", \"use\", \"typed\")\nemit(use({k}))\nemit(typed({k}, [\"a\", \"b\"]))\n"), out),
        2 => {
            // host-side reads of shared frozen values: encode, hash, equality
            let m0 = &shared[0].1;
            if let Ok(h) = m0.get_owned("DATA") {
                out.push(format!("DATA {}", fnv(h.by_ref(|v| sl::encode(*v)).as_bytes())));
            }
            if let (Ok(a), Ok(b)) = (m0.get_owned("STRS"), shared[1].1.get_owned("SHARED")) {
                let s = a.by_ref(|v| {
                    let l = starlark::values::list::ListRef::from_value(*v).unwrap();
                    let x = l.content()[k as usize % l.len()];
                    format!("{:?} {}", x.get_hashed().map(|h| h.hash().get()).ok(), x.equals(l.content()[0]).unwrap_or(false))
                });
                out.push(format!("STRS {s}"));
                out.push(format!("SHARED {}", b.by_ref(|v| sl::encode(*v)).len()));
            }
        }
        3 => {
            // private module: build, freeze, read, drop
            let src = format!("p = [str(i) * 2 for i in range({})]\nq = {{x: len(x) for x in p}}\ndef f():\n    return (p, q)\n", 5 + k % 20);
            let (o, fm) = sl::run_and_freeze("private.star", &src, &cfg, &[]);
            if let Some(fm) = fm {
                if let Ok(h) = fm.get_owned("q") {
                    out.push(format!("private {}", h.by_ref(|v| sl::encode(*v))));
                }
                drop(fm);
            } else {
                out.push(format!("private failed {:?}", o.result.err().map(|e| e.msg)));
            }
        }
        4 => {
            // heap created on this thread, dropped by whoever runs step 5 next
            let src = format!("load(\"m1.star\", \"SHARED\")\nkeep = [SHARED, [{k}] * 50]\n");
            let (_, fm) = sl::run_and_freeze("handoff.star", &src, &cfg, &loads);
            if let Some(fm) = fm {
                out.push("handoff created".into());
                drop_box.lock().unwrap().push(fm);
            }
        }
        5 => {
            let taken: Vec<FrozenModule> = std::mem::take(&mut *drop_box.lock().unwrap());
            drop(taken);
            out.push("dropped foreign heaps".into());
        }
        6 => {
            // first use of the global environments
            let n1 = Globals::standard().names().count();
            let n2 = Globals::extended_internal().names().count();
            let n3 = sl::globals().names().count();
            out.push(format!("globals {n1} {n2} {n3}"));
            snippet("emit([abs(-3), len(\"xy\"), sorted([3, 1]), \"a,b\".split(\",\"), {\"k\": 1}.get(\"k\"), str(struct(a = 1))])\n".to_owned(), out);
        }
        _ => snippet(format!("load(\"m2.star\", \"describe\")\nemit(describe({k}))\n"), out),
    }
}

fn run_workload(w: &[Step], shared: &[(String, FrozenModule)], drop_box: &Mutex<Vec<FrozenModule>>, yields: u32) -> Vec<String> {
    let mut out = Vec::new();
    for (i, s) in w.iter().enumerate() {
        run_step(*s, shared, drop_box, &mut out);
        match (yields.wrapping_add(i as u32)) % 4 {
            0 => std::thread::yield_now(),
            1 => {
                for _ in 0..(200 * (yields % 7)) {
                    std::hint::spin_loop();
                }
            }
            _ => {}
        }
    }
    out
}

/// Drop storm: heaps built back to back on one thread (they share arena chunks through the per-thread chunk cache) are
/// handed to persistent dropper threads which release them at the same instant (spin start signal); repeated `rounds`
/// times. Values are read before the hand-over. The observable outcome is only "no crash, no corrupted value" - the
/// reference-count traffic on shared chunks is what this stresses.
fn drop_storm(rounds: u32, nthreads: usize, seed: u32) -> String {
    use std::sync::atomic::AtomicU64;
    use std::sync::atomic::AtomicUsize;
    use std::sync::atomic::Ordering;
    use starlark::values::FrozenHeap;
    use starlark::values::FrozenHeapRef;
    let slots: Arc<Vec<Mutex<Option<FrozenHeapRef>>>> = Arc::new((0..nthreads).map(|_| Mutex::new(None)).collect());
    let generation = Arc::new(AtomicU64::new(0));
    let done = Arc::new(AtomicUsize::new(0));
    let stop = Arc::new(std::sync::atomic::AtomicBool::new(false));
    let mut hs = Vec::new();
    for t in 0..nthreads {
        let (slots, generation, done, stop) = (slots.clone(), generation.clone(), done.clone(), stop.clone());
        hs.push(std::thread::spawn(move || {
            let mut seen = 0u64;
            loop {
                let g = generation.load(Ordering::Acquire);
                if g == seen {
                    if stop.load(Ordering::Relaxed) {
                        return;
                    }
                    std::hint::spin_loop();
                    continue;
                }
                seen = g;
                let h = slots[t].lock().unwrap().take();
                drop(h);
                done.fetch_add(1, Ordering::Release);
            }
        }));
    }
    let mut checksum = 0u64;
    for r in 0..rounds {
        let mut built = Vec::new();
        for t in 0..nthreads {
            let heap = FrozenHeap::new();
            let n = 1 + ((seed as usize + r as usize + t) % 5);
            let mut last = None;
            for i in 0..n {
                last = Some(heap.alloc(format!("storm-{r}-{t}-{i}-").repeat(1 + (r as usize + i) % 4)));
            }
            if let Some(v) = last {
                checksum = checksum.wrapping_mul(31).wrapping_add(v.to_value().unpack_str().map(|s| s.len() as u64).unwrap_or(0));
            }
            built.push(heap.into_ref());
        }
        for (t, h) in built.into_iter().enumerate() {
            *slots[t].lock().unwrap() = Some(h);
        }
        done.store(0, Ordering::Release);
        generation.fetch_add(1, Ordering::Release);
        while done.load(Ordering::Acquire) < nthreads {
            std::hint::spin_loop();
        }
    }
    stop.store(true, Ordering::Relaxed);
    for h in hs {
        let _ = h.join();
    }
    format!("storm rounds={rounds} threads={nthreads} checksum={checksum}")
}

/// `svf c20-child <file> <mode>`; mode: "seq" or "conc:<barrier 0/1>:<oversubscribe 0/1>:<concurrent-build 0/1>"
pub fn child_main(path: &str, mode: &str) -> i32 {
    install_quiet_panic_hook();
    let text = std::fs::read_to_string(path).unwrap_or_default();
    let j: J = serde_json::from_str(&text).unwrap_or(J::Null);
    let workloads: Vec<Vec<Step>> = j["workloads"].as_array().map(|a| a.iter().map(|w| w.as_array().map(|s| s.iter().map(|p| (p[0].as_u64().unwrap_or(0) as u32, p[1].as_u64().unwrap_or(0) as u32)).collect()).unwrap_or_default()).collect()).unwrap_or_default();
    let yields: Vec<u32> = j["yields"].as_array().map(|a| a.iter().map(|x| x.as_u64().unwrap_or(0) as u32).collect()).unwrap_or_default();
    let drop_box: Arc<Mutex<Vec<FrozenModule>>> = Default::default();
    let results: Vec<Vec<String>> = if mode == "seq" {
        // each workload alone, one after the other, on a fresh thread with the worker stack
        workloads
            .iter()
            .map(|w| {
                let w = w.clone();
                std::thread::Builder::new()
                    .stack_size(WORKER_STACK)
                    .spawn(move || {
                        let shared = build_shared();
                        let db: Mutex<Vec<FrozenModule>> = Default::default();
                        let r = run_workload(&w, &shared, &db, 3);
                        drop(shared);
                        r
                    })
                    .unwrap()
                    .join()
                    .unwrap_or_else(|_| vec!["thread panicked".into()])
            })
            .collect()
    } else {
        let parts: Vec<&str> = mode.split(':').collect();
        let barrier_on = parts.get(1) == Some(&"1");
        let oversub = parts.get(2) == Some(&"1");
        let conc_build = parts.get(3) == Some(&"1");
        let n = workloads.len();
        let shared: Arc<Vec<(String, FrozenModule)>> = if conc_build {
            // several threads build the same modules at once; the first finished set is used
            let hs: Vec<_> = (0..3).map(|_| std::thread::Builder::new().stack_size(WORKER_STACK).spawn(build_shared).unwrap()).collect();
            let mut sets: Vec<Vec<(String, FrozenModule)>> = hs.into_iter().filter_map(|h| h.join().ok()).collect();
            Arc::new(sets.pop().expect("shared modules"))
        } else {
            Arc::new(std::thread::Builder::new().stack_size(WORKER_STACK).spawn(build_shared).unwrap().join().expect("shared modules"))
        };
        let stop = Arc::new(std::sync::atomic::AtomicBool::new(false));
        let mut spinners = Vec::new();
        if oversub {
            for _ in 0..16 {
                let stop = stop.clone();
                spinners.push(std::thread::spawn(move || {
                    let mut x = 0u64;
                    while !stop.load(std::sync::atomic::Ordering::Relaxed) {
                        x = x.wrapping_mul(6364136223846793005).wrapping_add(1);
                        if x % 1024 == 0 {
                            std::thread::yield_now();
                        }
                    }
                }));
            }
        }
        let barrier = Arc::new(Barrier::new(n));
        let hs: Vec<_> = workloads
            .iter()
            .enumerate()
            .map(|(i, w)| {
                let w = w.clone();
                let shared = shared.clone();
                let drop_box = drop_box.clone();
                let barrier = barrier.clone();
                let y = yields.get(i).copied().unwrap_or(0);
                std::thread::Builder::new()
                    .stack_size(WORKER_STACK)
                    .spawn(move || {
                        if barrier_on {
                            barrier.wait();
                        } else {
                            for _ in 0..(y % 50) * 100 {
                                std::hint::spin_loop();
                            }
                        }
                        run_workload(&w, &shared, &drop_box, y)
                    })
                    .unwrap()
            })
            .collect();
        let r: Vec<Vec<String>> = hs.into_iter().map(|h| h.join().unwrap_or_else(|_| vec!["thread panicked".into()])).collect();
        stop.store(true, std::sync::atomic::Ordering::Relaxed);
        for s in spinners {
            let _ = s.join();
        }
        // last owner of the shared modules may be any thread
        let _ = std::thread::spawn(move || drop(shared)).join();
        let storm_rounds = j["storm_rounds"].as_u64().unwrap_or(0) as u32;
        if storm_rounds > 0 {
            let nt = 2 + (yields.first().copied().unwrap_or(0) as usize % 3);
            let line = drop_storm(storm_rounds, nt, yields.first().copied().unwrap_or(0));
            eprintln!("{line}");
        }
        r
    };
    drop(drop_box);
    println!("{}", json!(results));
    0
}

fn spawn(path: &str, mode: &str) -> Result<Vec<Vec<String>>, String> {
    let exe = std::env::current_exe().map_err(|e| e.to_string())?;
    let out = Command::new(exe).arg("c20-child").arg(path).arg(mode).stdin(Stdio::null()).stderr(Stdio::piped()).output().map_err(|e| e.to_string())?;
    let text = String::from_utf8_lossy(&out.stdout);
    let Some(line) = text.lines().rev().find(|l| l.starts_with('[')) else {
        return Err(format!("child died: {} ; stderr: {}", out.status, truncate(&String::from_utf8_lossy(&out.stderr), 600)));
    };
    let j: J = serde_json::from_str(line).map_err(|e| e.to_string())?;
    Ok(j.as_array().map(|a| a.iter().map(|t| t.as_array().map(|l| l.iter().map(|s| s.as_str().unwrap_or("").to_owned()).collect()).unwrap_or_default()).collect()).unwrap_or_default())
}

impl Prop for C20 {
    fn id(&self) -> &'static str {
        "C20"
    }
    fn cases(&self, tier: Tier) -> u64 {
        match tier {
            Tier::Quick => 160,
            Tier::Thorough => 8_000,
        }
    }
    fn choice_len(&self, _tier: Tier) -> (usize, usize) {
        (40, 600)
    }
    fn shrink_iters(&self) -> u32 {
        40
    }
    fn timeout(&self, tier: Tier) -> std::time::Duration {
        // process spawns dominate; on a machine busy with other work the quick tier has been seen to need > 900 s
        match tier {
            Tier::Quick => std::time::Duration::from_secs(2700),
            Tier::Thorough => std::time::Duration::from_secs(6 * 3600),
        }
    }
    fn workers(&self) -> usize {
        // each case spawns multi-threaded child processes; keep the machine oversubscribed but not thrashing
        4
    }
    fn rule(&self) -> String {
        "Case = 2..16 per-thread workloads of 5..40 steps drawn by proptest from: load+call functions of three chained frozen modules (recursion, records, enums, typed defs with runtime type matchers, comprehensions, lambdas/partial, string formatting, json, hash()); host-side encode/hash/equality of shared frozen values; build+freeze+read+drop of a private module; creating a frozen module that references the shared ones and handing it to whichever thread drops it; dropping heaps created by other threads; a drop storm at the end of every concurrent process (10 000 rounds in quick: 2-4 frozen heaps built back to back on one thread, so that they share arena chunks, released at the same instant by persistent dropper threads); first use of Globals::standard()/extended_internal() and of the harness globals. Every case runs in fresh processes: one reference process executing each workload alone, and three concurrent processes (start barrier / staggered starts with generated spin and yield points; 16 extra spinning threads oversubscribing the 16 cores; the shared modules built concurrently by three threads). Oracle: every thread's transcript equals the transcript of the same workload run alone; a child that dies is a violation; freed arenas are poisoned (hook H2). evaluations = thread transcripts compared. Non-trivial = >= 2 threads touch the shared frozen heaps while at least one thread creates or drops a heap; distinct = distinct workload set.".into()
    }
    fn assumptions(&self) -> Vec<String> {
        vec!["the harness does not own the OS schedule: randomised barriers, staggered starts, yields and over-subscription raise the chance of exposing a race but a race that needs a specific instruction interleaving can stay hidden".into()]
    }
    fn floors(&self) -> Vec<(&'static str, f64)> {
        vec![("shared_and_drop", 0.5)]
    }
    fn run(&self, ctx: &mut Ctx, ch: &mut Choices) -> CaseResult {
        let nthreads = 2 + ch.idx(15);
        let mut workloads: Vec<Vec<Step>> = Vec::new();
        for _ in 0..nthreads {
            let n = 5 + ch.idx(36);
            workloads.push((0..n).map(|_| (ch.below(8), ch.below(200))).collect());
        }
        let yields: Vec<u32> = (0..nthreads).map(|_| ch.raw() % 1000).collect();
        let storm_rounds: u32 = if ctx.tier == Tier::Quick { 10_000 } else { 60_000 };
        let case = json!({"workloads": workloads.iter().map(|w| w.iter().map(|s| json!([s.0, s.1])).collect::<Vec<_>>()).collect::<Vec<_>>(), "yields": yields, "storm_rounds": storm_rounds});
        let dir = format!("{WORK_DIR}/C20");
        let _ = std::fs::create_dir_all(&dir);
        let path = format!("{dir}/case-{}-{}.json", std::process::id(), ctx.worker);
        let _ = std::fs::write(&path, case.to_string());
        let mut r = CaseResult::new(format!("{nthreads} threads; steps per thread {:?}; yields {:?}; first workload {:?}", workloads.iter().map(|w| w.len()).collect::<Vec<_>>(), yields, workloads[0]));
        r.evals = 0;
        let reference = match spawn(&path, "seq") {
            Ok(x) => x,
            Err(e) => {
                r.fail("sequential-run-died", format!("the sequential reference process failed: {e}"));
                let _ = std::fs::remove_file(&path);
                return r;
            }
        };
        for mode in ["conc:1:0:0", "conc:0:1:0", "conc:1:1:1"] {
            match spawn(&path, mode) {
                Ok(got) => {
                    for (i, (g, w)) in got.iter().zip(reference.iter()).enumerate() {
                        r.evals += 1;
                        if g != w {
                            let d = (0..g.len().max(w.len())).find(|k| g.get(*k) != w.get(*k)).unwrap_or(0);
                            r.fail("concurrent-differs", format!("mode {mode}, thread {i}: transcript differs from the same workload run alone at line {d}: {:?} vs {:?}\nworkload {:?}", g.get(d).map(|s| truncate(s, 300)), w.get(d).map(|s| truncate(s, 300)), workloads[i]));
                        }
                    }
                    if got.len() != reference.len() {
                        r.fail("concurrent-differs", format!("mode {mode}: {} transcripts, expected {}", got.len(), reference.len()));
                    }
                }
                Err(e) => r.fail("concurrent-run-died", format!("mode {mode}: {e}")),
            }
        }
        let _ = std::fs::remove_file(&path);
        let touches_shared = workloads.iter().filter(|w| w.iter().any(|s| matches!(s.0 % 8, 0 | 1 | 2 | 7))).count();
        let creates_or_drops = workloads.iter().any(|w| w.iter().any(|s| matches!(s.0 % 8, 3 | 4 | 5)));
        if touches_shared >= 2 && creates_or_drops {
            r.label("shared_and_drop");
            r.nontrivial_self();
        }
        r.evals = r.evals.max(1);
        r
    }
}
