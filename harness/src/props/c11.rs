//! C11 — ordered maps and sets behave as insertion-ordered sequences under any history.
//! Oracle: reference model `Vec<(id, value)>`; full comparison after every step.

use std::hash::Hash;
use std::hash::Hasher;

use starlark_map::Hashed;
use starlark_map::StarlarkHashValue;
use starlark_map::ordered_map::OrderedMap;
use starlark_map::ordered_set::OrderedSet;
use starlark_map::small_map::Entry;
use starlark_map::small_map::SmallMap;
use starlark_map::small_set::SmallSet;
use starlark_map::sorted_map::SortedMap;
use starlark_map::sorted_set::SortedSet;
use starlark_map::sorted_vec::SortedVec;
use starlark_map::unordered_map::UnorderedMap;
use starlark_map::unordered_set::UnorderedSet;
use starlark_map::vec2::Vec2;

use crate::engine::*;

pub struct C11;

#[derive(Clone, Copy, Debug)]
struct K {
    id: u16,
    h: u32,
}
impl PartialEq for K {
    fn eq(&self, o: &K) -> bool {
        self.id == o.id
    }
}
impl Eq for K {}
impl PartialOrd for K {
    fn partial_cmp(&self, o: &K) -> Option<std::cmp::Ordering> {
        Some(self.cmp(o))
    }
}
impl Ord for K {
    fn cmp(&self, o: &K) -> std::cmp::Ordering {
        self.id.cmp(&o.id)
    }
}
impl Hash for K {
    fn hash<H: Hasher>(&self, s: &mut H) {
        s.write_u32(self.h);
    }
}

/// How hashes are assigned to the keys of the universe.
#[derive(Clone, Copy, Debug, PartialEq)]
enum HashMode {
    /// Honest: hash computed by the library from `Hash for K`; `h` = f(id) may collide on purpose.
    HonestDistinct,
    HonestSame,
    HonestMod3,
    /// Raw: 32-bit hash supplied through `Hashed::new_unchecked`; only `_hashed` APIs are used.
    RawAllEqual,
    RawEqualLow,
    RawEqualHigh,
    RawTopBit,
    RawSequential,
}

const MODES: [HashMode; 8] = [
    HashMode::HonestDistinct,
    HashMode::HonestSame,
    HashMode::HonestMod3,
    HashMode::RawAllEqual,
    HashMode::RawEqualLow,
    HashMode::RawEqualHigh,
    HashMode::RawTopBit,
    HashMode::RawSequential,
];

impl HashMode {
    fn raw(self) -> bool {
        !matches!(self, HashMode::HonestDistinct | HashMode::HonestSame | HashMode::HonestMod3)
    }
    fn colliding(self) -> bool {
        !matches!(self, HashMode::HonestDistinct | HashMode::RawSequential)
    }
    fn key(self, id: u16) -> K {
        let h = match self {
            HashMode::HonestDistinct => id as u32,
            HashMode::HonestSame => 7,
            HashMode::HonestMod3 => (id % 3) as u32,
            _ => 0,
        };
        K { id, h }
    }
    fn hashed(self, id: u16) -> Hashed<K> {
        let k = self.key(id);
        let i = id as u32;
        match self {
            HashMode::HonestDistinct | HashMode::HonestSame | HashMode::HonestMod3 => Hashed::new(k),
            HashMode::RawAllEqual => Hashed::new_unchecked(StarlarkHashValue::new_unchecked(0xDEAD_BEEF), k),
            HashMode::RawEqualLow => Hashed::new_unchecked(StarlarkHashValue::new_unchecked((i << 16) | 0x1234), k),
            HashMode::RawEqualHigh => Hashed::new_unchecked(StarlarkHashValue::new_unchecked(0xABCD_0000 | (i & 0x7)), k),
            HashMode::RawTopBit => Hashed::new_unchecked(StarlarkHashValue::new_unchecked(((i & 1) << 31) | (i >> 1)), k),
            HashMode::RawSequential => Hashed::new_unchecked(StarlarkHashValue::new_unchecked(i), k),
        }
    }
}

const THRESH: usize = 16;

struct Hist {
    mode: HashMode,
    universe: u16,
    trace: Vec<String>,
    fails: Vec<String>,
    up: u32,
    down: u32,
    removal_after_growth: bool,
    max_len: usize,
}

impl Hist {
    fn note_len(&mut self, before: usize, after: usize, removal: bool) {
        if before <= THRESH && after > THRESH {
            self.up += 1;
        }
        if before > THRESH && after <= THRESH {
            self.down += 1;
        }
        if removal && self.max_len > THRESH && after < before {
            self.removal_after_growth = true;
        }
        self.max_len = self.max_len.max(after);
    }
    fn fail(&mut self, s: String) {
        if self.fails.len() < 3 {
            self.fails.push(format!("after step {} ({}): {s}", self.trace.len(), self.trace.last().cloned().unwrap_or_default()));
        }
    }
}

macro_rules! chk {
    ($h:expr, $cond:expr, $($arg:tt)*) => {
        if !($cond) { $h.fail(format!($($arg)*)); }
    };
}

fn check_map(h: &mut Hist, m: &SmallMap<K, u32>, model: &[(u16, u32)]) {
    chk!(h, m.len() == model.len(), "len {} != model {}", m.len(), model.len());
    chk!(h, m.is_empty() == model.is_empty(), "is_empty");
    let got: Vec<(u16, u32)> = m.iter().map(|(k, v)| (k.id, *v)).collect();
    chk!(h, got == model, "iteration order/content {:?} != model {:?}", got, model);
    let it = m.iter();
    chk!(h, it.len() == model.len() && it.size_hint() == (model.len(), Some(model.len())), "iter size_hint");
    let back: Vec<(u16, u32)> = m.iter().rev().map(|(k, v)| (k.id, *v)).collect();
    let mut rm = model.to_vec();
    rm.reverse();
    chk!(h, back == rm, "reverse iteration {:?}", back);
    let keys: Vec<u16> = m.keys().map(|k| k.id).collect();
    chk!(h, keys == model.iter().map(|x| x.0).collect::<Vec<_>>(), "keys()");
    let vals: Vec<u32> = m.values().copied().collect();
    chk!(h, vals == model.iter().map(|x| x.1).collect::<Vec<_>>(), "values()");
    for (i, (k, _)) in m.iter_hashed().enumerate() {
        chk!(h, k.hash() == h.mode.hashed(k.key().id).hash(), "stored hash of entry {i}");
    }
    for id in 0..h.universe {
        let hk = h.mode.hashed(id);
        let pos = model.iter().position(|x| x.0 == id);
        let want = pos.map(|p| model[p].1);
        chk!(h, m.get_hashed(hk.as_ref()).copied() == want, "get_hashed({id}) = {:?}, model {:?}", m.get_hashed(hk.as_ref()), want);
        chk!(h, m.contains_key_hashed(hk.as_ref()) == want.is_some(), "contains_key_hashed({id})");
        chk!(h, m.get_index_of_hashed(hk.as_ref()) == pos, "get_index_of_hashed({id}) = {:?}, model {:?}", m.get_index_of_hashed(hk.as_ref()), pos);
        let full = m.get_full_hashed(hk.as_ref()).map(|(i, k, v)| (i, k.id, *v));
        chk!(h, full == pos.map(|p| (p, id, model[p].1)), "get_full_hashed({id}) = {:?}", full);
        chk!(h, m.get_hashed_by_value(hk).copied() == want, "get_hashed_by_value({id})");
        if !h.mode.raw() {
            let k = h.mode.key(id);
            chk!(h, m.get(&k).copied() == want, "get({id})");
            chk!(h, m.contains_key(&k) == want.is_some(), "contains_key({id})");
            chk!(h, m.get_index_of(&k) == pos, "get_index_of({id})");
            chk!(h, m.get_full(&k).map(|(i, k, v)| (i, k.id, *v)) == pos.map(|p| (p, id, model[p].1)), "get_full({id})");
        }
    }
    for i in 0..=model.len() {
        let g = m.get_index(i).map(|(k, v)| (k.id, *v));
        chk!(h, g == model.get(i).copied(), "get_index({i}) = {:?}", g);
    }
    chk!(h, m.first().map(|(k, v)| (k.id, *v)) == model.first().copied(), "first()");
    chk!(h, m.last().map(|(k, v)| (k.id, *v)) == model.last().copied(), "last()");
}

fn new_value(ch: &mut Choices) -> u32 {
    ch.below(1000)
}

/// Pick a key id, biased to present / absent as requested.
fn pick_id(ch: &mut Choices, universe: u16, model_ids: &[u16], want_present: Option<bool>) -> u16 {
    match want_present {
        Some(true) if !model_ids.is_empty() => model_ids[ch.idx(model_ids.len())],
        Some(false) => {
            let absent: Vec<u16> = (0..universe).filter(|i| !model_ids.contains(i)).collect();
            if absent.is_empty() { ch.below(universe as u32) as u16 } else { absent[ch.idx(absent.len())] }
        }
        _ => ch.below(universe as u32) as u16,
    }
}

fn model_insert(model: &mut Vec<(u16, u32)>, id: u16, v: u32) -> Option<u32> {
    if let Some(p) = model.iter().position(|x| x.0 == id) {
        let old = model[p].1;
        model[p].1 = v;
        Some(old)
    } else {
        model.push((id, v));
        None
    }
}

fn model_remove(model: &mut Vec<(u16, u32)>, id: u16) -> Option<(u16, u32)> {
    model.iter().position(|x| x.0 == id).map(|p| model.remove(p))
}

const N_MAP_OPS: u32 = 24;

fn map_step(h: &mut Hist, ch: &mut Choices, m: &mut SmallMap<K, u32>, model: &mut Vec<(u16, u32)>, op: u32) {
    let ids: Vec<u16> = model.iter().map(|x| x.0).collect();
    let raw = h.mode.raw();
    let before = model.len();
    let mut removal = false;
    match op {
        0 | 1 => {
            // insert (present or absent)
            let id = pick_id(ch, h.universe, &ids, if op == 0 { None } else { Some(false) });
            let v = new_value(ch);
            let hashed_api = raw || ch.bool();
            h.trace.push(format!("insert{}({id},{v})", if hashed_api { "_hashed" } else { "" }));
            let got = if hashed_api { m.insert_hashed(h.mode.hashed(id), v) } else { m.insert(h.mode.key(id), v) };
            let want = model_insert(model, id, v);
            chk!(h, got == want, "insert returned {:?}, model {:?}", got, want);
        }
        2 => {
            let id = pick_id(ch, h.universe, &ids, Some(false));
            if !ids.contains(&id) {
                let v = new_value(ch);
                let hashed_api = raw || ch.bool();
                h.trace.push(format!("insert{}_unique_unchecked({id},{v})", if hashed_api { "_hashed" } else { "" }));
                let (k, vr) = if hashed_api { m.insert_hashed_unique_unchecked(h.mode.hashed(id), v) } else { m.insert_unique_unchecked(h.mode.key(id), v) };
                let ok = k.id == id && *vr == v;
                chk!(h, ok, "insert_unique_unchecked returned wrong refs");
                model.push((id, v));
            } else {
                h.trace.push("noop".into());
            }
        }
        3 | 4 => {
            let id = pick_id(ch, h.universe, &ids, if op == 3 { Some(true) } else { None });
            let variant = ch.below(4);
            removal = true;
            let want = model_remove(model, id);
            match variant {
                0 => {
                    h.trace.push(format!("shift_remove_hashed({id})"));
                    let got = m.shift_remove_hashed(h.mode.hashed(id).as_ref());
                    chk!(h, got == want.map(|x| x.1), "shift_remove_hashed returned {:?}", got);
                }
                1 => {
                    h.trace.push(format!("shift_remove_hashed_entry({id})"));
                    let got = m.shift_remove_hashed_entry(h.mode.hashed(id).as_ref()).map(|(k, v)| (k.id, v));
                    chk!(h, got == want, "shift_remove_hashed_entry returned {:?}", got);
                }
                2 if !raw => {
                    h.trace.push(format!("shift_remove({id})"));
                    let got = m.shift_remove(&h.mode.key(id));
                    chk!(h, got == want.map(|x| x.1), "shift_remove returned {:?}", got);
                }
                _ if !raw => {
                    h.trace.push(format!("shift_remove_entry({id})"));
                    let got = m.shift_remove_entry(&h.mode.key(id)).map(|(k, v)| (k.id, v));
                    chk!(h, got == want, "shift_remove_entry returned {:?}", got);
                }
                _ => {
                    h.trace.push(format!("shift_remove_hashed({id})"));
                    let got = m.shift_remove_hashed(h.mode.hashed(id).as_ref());
                    chk!(h, got == want.map(|x| x.1), "shift_remove_hashed returned {:?}", got);
                }
            }
        }
        5 => {
            let i = ch.idx(model.len() + 2);
            removal = true;
            let want = if i < model.len() { Some(model.remove(i)) } else { None };
            if ch.bool() {
                h.trace.push(format!("shift_remove_index({i})"));
                let got = m.shift_remove_index(i).map(|(k, v)| (k.id, v));
                chk!(h, got == want, "shift_remove_index returned {:?}", got);
            } else {
                h.trace.push(format!("shift_remove_index_hashed({i})"));
                let got = m.shift_remove_index_hashed(i).map(|(k, v)| (k.key().id, k.hash(), v));
                chk!(h, got == want.map(|(id, v)| (id, h.mode.hashed(id).hash(), v)), "shift_remove_index_hashed returned {:?}", got);
            }
        }
        6 => {
            h.trace.push("pop".into());
            removal = true;
            let got = m.pop().map(|(k, v)| (k.id, v));
            let want = model.pop();
            chk!(h, got == want, "pop returned {:?}, model {:?}", got, want);
        }
        7 => {
            let id = pick_id(ch, h.universe, &ids, None);
            let v = new_value(ch);
            let variant = ch.below(3);
            let e = if raw || ch.bool() { m.entry_hashed(h.mode.hashed(id)) } else { m.entry(h.mode.key(id)) };
            chk!(h, e.key().id == id, "entry.key()");
            let present = ids.contains(&id);
            match variant {
                0 => {
                    h.trace.push(format!("entry({id}).or_insert({v})"));
                    let r = *e.or_insert(v);
                    let want = if present { model.iter().find(|x| x.0 == id).unwrap().1 } else { v };
                    chk!(h, r == want, "or_insert returned {r}");
                    if !present {
                        model.push((id, v));
                    }
                }
                1 => {
                    h.trace.push(format!("entry({id}).and_modify(+1).or_insert({v})"));
                    let _ = e.and_modify(|x| *x += 1).or_insert(v);
                    if present {
                        model.iter_mut().find(|x| x.0 == id).unwrap().1 += 1;
                    } else {
                        model.push((id, v));
                    }
                }
                _ => {
                    h.trace.push(format!("match entry({id}) set {v}"));
                    match e {
                        Entry::Occupied(mut o) => {
                            chk!(h, present, "entry occupied but model says absent");
                            *o.get_mut() = v;
                            let (k, _) = o.as_key_and_mut_value();
                            chk!(h, k.id == id, "occupied key");
                        }
                        Entry::Vacant(vac) => {
                            chk!(h, !present, "entry vacant but model says present");
                            chk!(h, vac.key().id == id, "vacant key");
                            vac.insert(v);
                        }
                    }
                    model_insert(model, id, v);
                }
            }
        }
        8 => {
            let modulus = 2 + ch.below(4);
            let r = ch.below(modulus);
            let by_val = ch.bool();
            h.trace.push(format!("retain({} % {modulus} != {r})", if by_val { "v" } else { "id" }));
            removal = true;
            m.retain(|k, v| if by_val { *v % modulus != r } else { (k.id as u32) % modulus != r });
            model.retain(|(id, v)| if by_val { *v % modulus != r } else { (*id as u32) % modulus != r });
        }
        9 => {
            h.trace.push("sort_keys".into());
            m.sort_keys();
            model.sort_by_key(|x| x.0);
        }
        10 => {
            h.trace.push("reverse".into());
            m.reverse();
            model.reverse();
        }
        11 => {
            if ch.chance(1, 4) {
                h.trace.push("clear".into());
                removal = true;
                m.clear();
                model.clear();
            } else {
                h.trace.push("noop".into());
            }
        }
        12 => {
            let n = ch.idx(40);
            h.trace.push(format!("reserve({n})"));
            m.reserve(n);
            chk!(h, m.capacity() >= m.len() + n, "capacity after reserve");
        }
        13 => {
            h.trace.push("maybe_drop_index".into());
            m.maybe_drop_index();
        }
        14 => {
            let n = 1 + ch.idx(6);
            let mut items = Vec::new();
            for _ in 0..n {
                items.push((pick_id(ch, h.universe, &ids, None), new_value(ch)));
            }
            h.trace.push(format!("extend({items:?})"));
            if raw {
                for (id, v) in &items {
                    m.insert_hashed(h.mode.hashed(*id), *v);
                }
            } else {
                m.extend(items.iter().map(|(id, v)| (h.mode.key(*id), *v)));
            }
            for (id, v) in items {
                model_insert(model, id, v);
            }
        }
        15 => {
            h.trace.push("clone-and-continue".into());
            let c = m.clone();
            chk!(h, c == *m, "clone != original");
            chk!(h, c.eq_ordered(m), "clone !eq_ordered original");
            let mut h1 = std::collections::hash_map::DefaultHasher::new();
            let mut h2 = std::collections::hash_map::DefaultHasher::new();
            c.hash_ordered(&mut h1);
            m.hash_ordered(&mut h2);
            chk!(h, h1.finish() == h2.finish(), "hash_ordered of clone differs");
            *m = c;
        }
        16 => {
            let id = pick_id(ch, h.universe, &ids, Some(true));
            let v = new_value(ch);
            h.trace.push(format!("get_mut({id}) = {v}"));
            let got = if raw || ch.bool() { m.get_mut_hashed(h.mode.hashed(id).as_ref()) } else { m.get_mut(&h.mode.key(id)) };
            let present = ids.contains(&id);
            chk!(h, got.is_some() == present, "get_mut presence");
            if let Some(g) = got {
                *g = v;
            }
            if present {
                model_insert(model, id, v);
            }
        }
        17 => {
            h.trace.push("values_mut/iter_mut +3".into());
            if ch.bool() {
                for v in m.values_mut() {
                    *v += 3;
                }
            } else {
                for (_, v) in m.iter_mut() {
                    *v += 3;
                }
            }
            for x in model.iter_mut() {
                x.1 += 3;
            }
        }
        18 => {
            h.trace.push("rebuild via into_iter_hashed().collect()".into());
            let old = std::mem::take(m);
            *m = old.into_iter_hashed().collect();
        }
        19 if !raw => {
            h.trace.push("rebuild via into_iter().collect()".into());
            let old = std::mem::take(m);
            *m = old.into_iter().collect();
        }
        20 => {
            // iterator protocol: interleave next / next_back / nth and compare with a VecDeque model
            let mut it = m.iter();
            let mut dq: std::collections::VecDeque<(u16, u32)> = model.iter().copied().collect();
            h.trace.push("iterator-protocol".into());
            for _ in 0..(model.len() + 2) {
                match ch.below(3) {
                    0 => {
                        let g = it.next().map(|(k, v)| (k.id, *v));
                        let w = dq.pop_front();
                        chk!(h, g == w, "iter.next {:?} vs {:?}", g, w);
                    }
                    1 => {
                        let g = it.next_back().map(|(k, v)| (k.id, *v));
                        let w = dq.pop_back();
                        chk!(h, g == w, "iter.next_back {:?} vs {:?}", g, w);
                    }
                    _ => {
                        let n = ch.idx(3);
                        let g = it.nth(n).map(|(k, v)| (k.id, *v));
                        let mut w = None;
                        for _ in 0..=n {
                            w = dq.pop_front();
                            if w.is_none() {
                                break;
                            }
                        }
                        chk!(h, g == w, "iter.nth({n}) {:?} vs {:?}", g, w);
                    }
                }
                chk!(h, it.len() == dq.len(), "iter.len() {} vs {}", it.len(), dq.len());
            }
        }
        21 => {
            // burst grow: add several absent keys in a row (drives the map across the threshold)
            let n = 1 + ch.idx(12);
            h.trace.push(format!("burst-insert x{n}"));
            for _ in 0..n {
                let ids: Vec<u16> = model.iter().map(|x| x.0).collect();
                let id = pick_id(ch, h.universe, &ids, Some(false));
                if ids.contains(&id) {
                    break;
                }
                let v = new_value(ch);
                let b = model.len();
                let got = m.insert_hashed(h.mode.hashed(id), v);
                chk!(h, got.is_none(), "burst insert of absent key returned {:?}", got);
                model.push((id, v));
                h.note_len(b, model.len(), false);
            }
        }
        22 => {
            let n = 1 + ch.idx(12);
            h.trace.push(format!("burst-remove x{n}"));
            for _ in 0..n {
                if model.is_empty() {
                    break;
                }
                let p = ch.idx(model.len());
                let (id, v) = model.remove(p);
                let b = model.len() + 1;
                let got = m.shift_remove_hashed(h.mode.hashed(id).as_ref());
                chk!(h, got == Some(v), "burst remove returned {:?}, model {:?}", got, v);
                h.note_len(b, model.len(), true);
            }
        }
        _ => {
            // compare with a fresh map built by FromIterator<(Hashed<K>, V)> and with_capacity paths
            h.trace.push("rebuild-compare".into());
            let fresh: SmallMap<K, u32> = model.iter().map(|(id, v)| (h.mode.hashed(*id), *v)).collect();
            chk!(h, fresh == *m && fresh.eq_ordered(m), "map != fresh map from model");
            let mut cap = SmallMap::with_capacity(model.len());
            for (id, v) in model.iter() {
                cap.insert_hashed(h.mode.hashed(*id), *v);
            }
            chk!(h, cap.eq_ordered(m), "map != with_capacity map from model");
            if model.len() >= 2 {
                let mut rev = fresh.clone();
                rev.reverse();
                chk!(h, rev == *m, "== must ignore order");
                chk!(h, !rev.eq_ordered(m), "eq_ordered must respect order");
            }
        }
    }
    h.note_len(before, model.len(), removal);
}

fn run_smallmap(ch: &mut Choices, mode: HashMode, universe: u16, steps: usize) -> Hist {
    let mut h = Hist { mode, universe, trace: Vec::new(), fails: Vec::new(), up: 0, down: 0, removal_after_growth: false, max_len: 0 };
    let mut m: SmallMap<K, u32> = SmallMap::new();
    let mut model: Vec<(u16, u32)> = Vec::new();
    for _ in 0..steps {
        if ch.exhausted() {
            break;
        }
        // Weighted: growth ops slightly favoured so that histories hover around the threshold.
        let op = ch.weighted(&[5, 5, 3, 5, 2, 3, 3, 4, 2, 2, 2, 1, 1, 2, 2, 1, 2, 1, 1, 1, 2, 4, 3, 1]) as u32;
        debug_assert!(op < N_MAP_OPS);
        map_step(&mut h, ch, &mut m, &mut model, op);
        check_map(&mut h, &m, &model);
        if !h.fails.is_empty() {
            break;
        }
    }
    h
}

// ---- SmallSet ------------------------------------------------------------------------------

fn check_set(h: &mut Hist, s: &SmallSet<K>, model: &[u16]) {
    chk!(h, s.len() == model.len() && s.is_empty() == model.is_empty(), "set len {} vs {}", s.len(), model.len());
    let got: Vec<u16> = s.iter().map(|k| k.id).collect();
    chk!(h, got == model, "set iteration {:?} != model {:?}", got, model);
    chk!(h, s.iter().len() == model.len(), "set iter len");
    for id in 0..h.universe {
        let hk = h.mode.hashed(id);
        let pos = model.iter().position(|x| *x == id);
        chk!(h, s.contains_hashed(hk.as_ref()) == pos.is_some(), "contains_hashed({id})");
        chk!(h, s.get_hashed(hk.as_ref()).map(|k| k.id) == pos.map(|_| id), "get_hashed({id})");
        chk!(h, s.get_index_of_hashed(hk.as_ref()) == pos, "get_index_of_hashed({id})");
        chk!(h, s.get_index_of_hashed_by_value(hk) == pos, "get_index_of_hashed_by_value({id})");
        if !h.mode.raw() {
            let k = h.mode.key(id);
            chk!(h, s.contains(&k) == pos.is_some(), "contains({id})");
            chk!(h, s.get(&k).map(|k| k.id) == pos.map(|_| id), "get({id})");
            chk!(h, s.get_index_of(&k) == pos, "get_index_of({id})");
        }
    }
    for i in 0..=model.len() {
        chk!(h, s.get_index(i).map(|k| k.id) == model.get(i).copied(), "set get_index({i})");
    }
    chk!(h, s.first().map(|k| k.id) == model.first().copied(), "set first");
    chk!(h, s.last().map(|k| k.id) == model.last().copied(), "set last");
}

fn run_smallset(ch: &mut Choices, mode: HashMode, universe: u16, steps: usize) -> Hist {
    let mut h = Hist { mode, universe, trace: Vec::new(), fails: Vec::new(), up: 0, down: 0, removal_after_growth: false, max_len: 0 };
    let mut s: SmallSet<K> = SmallSet::new();
    let mut model: Vec<u16> = Vec::new();
    let raw = mode.raw();
    for _ in 0..steps {
        if ch.exhausted() {
            break;
        }
        let before = model.len();
        let mut removal = false;
        let op = ch.weighted(&[6, 4, 5, 3, 2, 2, 2, 2, 1, 2, 2, 2, 4, 3, 2, 2]);
        match op {
            0 | 1 => {
                let id = pick_id(ch, universe, &model, if op == 1 { Some(false) } else { None });
                let hashed_api = raw || ch.bool();
                h.trace.push(format!("insert{}({id})", if hashed_api { "_hashed" } else { "" }));
                let got = if hashed_api { s.insert_hashed(mode.hashed(id)) } else { s.insert(mode.key(id)) };
                let want = !model.contains(&id);
                chk!(h, got == want, "set insert returned {got}");
                if want {
                    model.push(id);
                }
            }
            2 => {
                let id = pick_id(ch, universe, &model, Some(true));
                removal = true;
                let hashed_api = raw || ch.bool();
                h.trace.push(format!("shift_remove{}({id})", if hashed_api { "_hashed" } else { "" }));
                let got = if hashed_api { s.shift_remove_hashed(mode.hashed(id).as_ref()) } else { s.shift_remove(&mode.key(id)) };
                let want = model.iter().position(|x| *x == id).map(|p| model.remove(p)).is_some();
                chk!(h, got == want, "set shift_remove returned {got}");
            }
            3 => {
                let i = ch.idx(model.len() + 2);
                removal = true;
                h.trace.push(format!("shift_remove_index({i})"));
                let want = if i < model.len() { Some(model.remove(i)) } else { None };
                let got = if ch.bool() { s.shift_remove_index(i).map(|k| k.id) } else { s.shift_remove_index_hashed(i).map(|k| k.key().id) };
                chk!(h, got == want, "set shift_remove_index returned {:?}", got);
            }
            4 => {
                h.trace.push("pop".into());
                removal = true;
                let got = s.pop().map(|k| k.id);
                chk!(h, got == model.pop(), "set pop returned {:?}", got);
            }
            5 if !raw => {
                let id = pick_id(ch, universe, &model, None);
                h.trace.push(format!("take({id})"));
                removal = true;
                let got = s.take(&mode.key(id)).map(|k| k.id);
                let want = model.iter().position(|x| *x == id).map(|p| model.remove(p));
                chk!(h, got == want, "take returned {:?}", got);
            }
            6 if !raw => {
                let id = pick_id(ch, universe, &model, None);
                h.trace.push(format!("get_or_insert({id})"));
                let got = if ch.bool() { s.get_or_insert(mode.key(id)).id } else { s.get_or_insert_owned(&mode.key(id)).id };
                chk!(h, got == id, "get_or_insert returned {got}");
                if !model.contains(&id) {
                    model.push(id);
                }
            }
            7 => {
                h.trace.push("sort".into());
                s.sort();
                model.sort();
            }
            8 => {
                h.trace.push("reverse".into());
                s.reverse();
                model.reverse();
            }
            9 => {
                let modulus = 2 + ch.below(3) as u16;
                let r = ch.below(modulus as u32) as u16;
                h.trace.push(format!("retain(id % {modulus} != {r})"));
                removal = true;
                s.retain(|k| k.id % modulus != r);
                model.retain(|id| *id % modulus != r);
            }
            10 => {
                // union / difference against another set
                let n = ch.idx(8);
                let mut other: SmallSet<K> = SmallSet::new();
                let mut om: Vec<u16> = Vec::new();
                for _ in 0..n {
                    let id = ch.below(universe as u32) as u16;
                    if !om.contains(&id) {
                        om.push(id);
                        other.insert_hashed(mode.hashed(id));
                    }
                }
                h.trace.push(format!("union/difference with {om:?}"));
                if !raw {
                    let u: Vec<u16> = s.union(&other).map(|k| k.id).collect();
                    let mut wu = model.clone();
                    for x in &om {
                        if !wu.contains(x) {
                            wu.push(*x);
                        }
                    }
                    chk!(h, u == wu, "union {:?} vs {:?}", u, wu);
                    let d: Vec<u16> = s.difference(&other).map(|k| k.id).collect();
                    let wd: Vec<u16> = model.iter().copied().filter(|x| !om.contains(x)).collect();
                    chk!(h, d == wd, "difference {:?} vs {:?}", d, wd);
                }
            }
            11 => {
                h.trace.push("clone-and-continue".into());
                let c = s.clone();
                chk!(h, c == s && c.eq_ordered(&s), "set clone equality");
                s = c;
            }
            12 => {
                let n = 1 + ch.idx(12);
                h.trace.push(format!("burst-insert x{n}"));
                for _ in 0..n {
                    let id = pick_id(ch, universe, &model, Some(false));
                    if model.contains(&id) {
                        break;
                    }
                    let b = model.len();
                    if ch.bool() {
                        s.insert_hashed_unique_unchecked(mode.hashed(id));
                    } else {
                        chk!(h, s.insert_hashed(mode.hashed(id)), "burst insert returned false");
                    }
                    model.push(id);
                    h.note_len(b, model.len(), false);
                }
            }
            13 => {
                let n = 1 + ch.idx(12);
                h.trace.push(format!("burst-remove x{n}"));
                for _ in 0..n {
                    if model.is_empty() {
                        break;
                    }
                    let p = ch.idx(model.len());
                    let id = model.remove(p);
                    let b = model.len() + 1;
                    chk!(h, s.shift_remove_hashed(mode.hashed(id).as_ref()), "burst remove returned false");
                    h.note_len(b, model.len(), true);
                }
            }
            14 => {
                if ch.chance(1, 3) {
                    h.trace.push("clear".into());
                    removal = true;
                    s.clear();
                    model.clear();
                } else {
                    let n = ch.idx(30);
                    h.trace.push(format!("reserve({n})"));
                    s.reserve(n);
                }
            }
            _ => {
                h.trace.push("rebuild via into_iter_hashed / extend".into());
                let old = std::mem::take(&mut s);
                if raw || ch.bool() {
                    for k in old.into_iter_hashed() {
                        s.insert_hashed(k);
                    }
                } else {
                    s.extend(old);
                }
            }
        }
        h.note_len(before, model.len(), removal);
        check_set(&mut h, &s, &model);
        if !h.fails.is_empty() {
            break;
        }
    }
    h
}

// ---- Ordered / Sorted / Unordered / Vec2 ---------------------------------------------------------

fn run_others(ch: &mut Choices, mode_in: HashMode, universe: u16, steps: usize) -> Hist {
    // These wrappers only expose the honest API.
    let mode = if mode_in.raw() { HashMode::HonestMod3 } else { mode_in };
    let mut h = Hist { mode, universe, trace: Vec::new(), fails: Vec::new(), up: 0, down: 0, removal_after_growth: false, max_len: 0 };
    let mut om: OrderedMap<K, u32> = OrderedMap::new();
    let mut os: OrderedSet<K> = OrderedSet::new();
    let mut um: UnorderedMap<K, u32> = UnorderedMap::new();
    let mut us: UnorderedSet<K> = UnorderedSet::new();
    let mut v2: Vec2<u16, u32> = Vec2::new();
    let mut model: Vec<(u16, u32)> = Vec::new(); // shared by om / um (um compared as multiset)
    let mut smodel: Vec<u16> = Vec::new(); // os / us
    let mut vmodel: Vec<(u16, u32)> = Vec::new();
    for _ in 0..steps {
        if ch.exhausted() {
            break;
        }
        let before = model.len();
        let mut removal = false;
        let ids: Vec<u16> = model.iter().map(|x| x.0).collect();
        match ch.weighted(&[8, 4, 2, 2, 4, 3, 2, 3, 3, 2, 2, 3]) {
            0 => {
                let id = pick_id(ch, universe, &ids, None);
                let v = new_value(ch);
                h.trace.push(format!("map.insert({id},{v})"));
                let want = model_insert(&mut model, id, v);
                let g1 = om.insert(mode.key(id), v);
                let g2 = um.insert(mode.key(id), v);
                chk!(h, g1 == want, "OrderedMap.insert returned {:?} want {:?}", g1, want);
                chk!(h, g2 == want, "UnorderedMap.insert returned {:?} want {:?}", g2, want);
            }
            1 => {
                let id = pick_id(ch, universe, &ids, Some(true));
                h.trace.push(format!("map.remove({id})"));
                removal = true;
                let want = model_remove(&mut model, id).map(|x| x.1);
                let g1 = om.remove(&mode.key(id));
                let g2 = um.remove(&mode.key(id));
                chk!(h, g1 == want, "OrderedMap.remove returned {:?} want {:?}", g1, want);
                chk!(h, g2 == want, "UnorderedMap.remove returned {:?} want {:?}", g2, want);
            }
            2 => {
                h.trace.push("map.sort_keys".into());
                om.sort_keys();
                model.sort_by_key(|x| x.0);
            }
            3 => {
                let modulus = 2 + ch.below(3);
                let r = ch.below(modulus);
                h.trace.push(format!("um.retain / om rebuild (v % {modulus} != {r})"));
                removal = true;
                um.retain(|_, v| *v % modulus != r);
                model.retain(|x| x.1 % modulus != r);
                om = model.iter().map(|(id, v)| (mode.key(*id), *v)).collect();
            }
            4 => {
                let id = pick_id(ch, universe, &smodel, None);
                h.trace.push(format!("set.insert({id})"));
                let want = !smodel.contains(&id);
                if want {
                    smodel.push(id);
                }
                let variant = ch.below(3);
                let g1 = match variant {
                    0 => os.insert(mode.key(id)),
                    1 => os.try_insert(mode.key(id)).is_ok(),
                    _ => {
                        if want {
                            os.insert_unique_unchecked(mode.key(id));
                            true
                        } else {
                            os.insert(mode.key(id))
                        }
                    }
                };
                let g2 = us.insert(mode.key(id));
                chk!(h, g1 == want, "OrderedSet.insert returned {g1}");
                chk!(h, g2 == want, "UnorderedSet.insert returned {g2}");
            }
            5 => {
                let id = pick_id(ch, universe, &smodel, Some(true));
                h.trace.push(format!("set.take({id})"));
                let want = smodel.iter().position(|x| *x == id).map(|p| smodel.remove(p));
                let g1 = os.take(&mode.key(id)).map(|k| k.id);
                chk!(h, g1 == want, "OrderedSet.take returned {:?}", g1);
                use starlark_map::unordered_set::RawEntryMut;
                let g2 = match us.raw_entry_mut().from_entry(&mode.key(id)) {
                    RawEntryMut::Occupied(o) => Some(o.remove().id),
                    RawEntryMut::Vacant(_) => None,
                };
                chk!(h, g2 == want, "UnorderedSet raw remove returned {:?}", g2);
            }
            6 => {
                h.trace.push("set.sort / reverse".into());
                if ch.bool() {
                    os.sort();
                    smodel.sort();
                } else {
                    os.reverse();
                    smodel.reverse();
                }
            }
            7 => {
                let a = ch.below(universe as u32) as u16;
                let b = new_value(ch);
                h.trace.push(format!("vec2.push({a},{b})"));
                v2.push(a, b);
                vmodel.push((a, b));
            }
            8 => {
                h.trace.push("vec2.remove/pop/truncate".into());
                match ch.below(3) {
                    0 if !vmodel.is_empty() => {
                        let i = ch.idx(vmodel.len());
                        let g = v2.remove(i);
                        let w = vmodel.remove(i);
                        chk!(h, g == w, "Vec2.remove({i}) returned {:?} want {:?}", g, w);
                    }
                    1 => {
                        let g = v2.pop();
                        let w = vmodel.pop();
                        chk!(h, g == w, "Vec2.pop returned {:?} want {:?}", g, w);
                    }
                    _ => {
                        let n = ch.idx(vmodel.len() + 2);
                        v2.truncate(n);
                        vmodel.truncate(n);
                    }
                }
            }
            9 => {
                h.trace.push("vec2.retain/sort_by/reserve/shrink".into());
                match ch.below(4) {
                    0 => {
                        let r = ch.below(3);
                        v2.retain(|_, b| *b % 3 != r);
                        vmodel.retain(|x| x.1 % 3 != r);
                    }
                    1 => {
                        // stable sort by first component
                        v2.sort_by(|x, y| x.0.cmp(y.0));
                        vmodel.sort_by(|x, y| x.0.cmp(&y.0));
                    }
                    2 => v2.reserve(ch.idx(50)),
                    _ => v2.shrink_to_fit(),
                }
            }
            10 => {
                h.trace.push("sorted containers from current content".into());
                let sm: SortedMap<K, u32> = model.iter().map(|(id, v)| (mode.key(*id), *v)).collect();
                let mut sorted = model.clone();
                sorted.sort_by_key(|x| x.0);
                let got: Vec<(u16, u32)> = sm.iter().map(|(k, v)| (k.id, *v)).collect();
                chk!(h, got == sorted, "SortedMap iteration {:?} vs {:?}", got, sorted);
                chk!(h, sm.len() == sorted.len(), "SortedMap len");
                for id in 0..universe {
                    let want = model.iter().find(|x| x.0 == id).map(|x| x.1);
                    chk!(h, sm.get(&mode.key(id)).copied() == want, "SortedMap.get({id})");
                    chk!(h, sm.contains_key(&mode.key(id)) == want.is_some(), "SortedMap.contains_key({id})");
                }
                let sm2: SortedMap<K, u32> = SortedMap::from(om.clone());
                chk!(h, sm2.iter().map(|(k, v)| (k.id, *v)).collect::<Vec<_>>() == sorted, "SortedMap::from(OrderedMap)");
                let ss: SortedSet<K> = smodel.iter().map(|id| mode.key(*id)).collect();
                let mut ssorted = smodel.clone();
                ssorted.sort();
                chk!(h, ss.iter().map(|k| k.id).collect::<Vec<_>>() == ssorted, "SortedSet iteration");
                for (i, id) in ssorted.iter().enumerate() {
                    chk!(h, ss.get_index(i).map(|k| k.id) == Some(*id), "SortedSet.get_index({i})");
                    chk!(h, ss.contains(&mode.key(*id)), "SortedSet.contains");
                }
                let ss2: SortedSet<K> = SortedSet::from(os.clone());
                chk!(h, ss2.iter().map(|k| k.id).collect::<Vec<_>>() == ssorted, "SortedSet::from(OrderedSet)");
                // SortedVec: duplicates kept, order non-decreasing, permutation
                let raw: Vec<u16> = vmodel.iter().map(|x| x.0).collect();
                let sv: SortedVec<u16> = raw.iter().copied().collect();
                let mut w = raw.clone();
                w.sort();
                chk!(h, sv.iter().copied().collect::<Vec<_>>() == w, "SortedVec content");
                let sv2: SortedVec<u16> = SortedVec::from(raw);
                chk!(h, sv2.iter().copied().collect::<Vec<_>>() == w, "SortedVec::from(Vec)");
            }
            _ => {
                let id = pick_id(ch, universe, &ids, None);
                let v = new_value(ch);
                h.trace.push(format!("entry({id}) on OrderedMap / UnorderedMap"));
                *om.entry(mode.key(id)).or_insert(v) += 1;
                match um.entry(mode.key(id)) {
                    starlark_map::unordered_map::Entry::Occupied(mut o) => {
                        *o.get_mut() += 1;
                    }
                    starlark_map::unordered_map::Entry::Vacant(vac) => {
                        vac.insert(v + 1);
                    }
                }
                if let Some(x) = model.iter_mut().find(|x| x.0 == id) {
                    x.1 += 1;
                } else {
                    model.push((id, v + 1));
                }
            }
        }
        h.note_len(before, model.len(), removal);
        // full comparisons
        let got: Vec<(u16, u32)> = om.iter().map(|(k, v)| (k.id, *v)).collect();
        chk!(h, got == model, "OrderedMap iteration {:?} vs model {:?}", got, model);
        chk!(h, om.len() == model.len() && um.len() == model.len(), "map len");
        let mut ugot: Vec<(u16, u32)> = um.entries_unordered().map(|(k, v)| (k.id, *v)).collect();
        ugot.sort();
        let mut msorted = model.clone();
        msorted.sort();
        chk!(h, ugot == msorted, "UnorderedMap content {:?} vs {:?}", ugot, msorted);
        let usorted: Vec<(u16, u32)> = um.entries_sorted().into_iter().map(|(k, v)| (k.id, *v)).collect();
        chk!(h, usorted == msorted, "UnorderedMap.entries_sorted");
        for id in 0..universe {
            let pos = model.iter().position(|x| x.0 == id);
            let want = pos.map(|p| model[p].1);
            chk!(h, om.get(&mode.key(id)).copied() == want, "OrderedMap.get({id})");
            chk!(h, om.get_index_of(&mode.key(id)) == pos, "OrderedMap.get_index_of({id})");
            chk!(h, om.contains_key(&mode.key(id)) == want.is_some(), "OrderedMap.contains_key({id})");
            chk!(h, um.get(&mode.key(id)).copied() == want, "UnorderedMap.get({id})");
            chk!(h, um.contains_key(&mode.key(id)) == want.is_some(), "UnorderedMap.contains_key({id})");
            chk!(h, um.get_hashed(Hashed::new(&mode.key(id))).copied() == want, "UnorderedMap.get_hashed({id})");
            let spos = smodel.iter().position(|x| *x == id);
            chk!(h, os.contains(&mode.key(id)) == spos.is_some(), "OrderedSet.contains({id})");
            chk!(h, os.get_index_of(&mode.key(id)) == spos, "OrderedSet.get_index_of({id})");
            chk!(h, us.contains(&mode.key(id)) == spos.is_some(), "UnorderedSet.contains({id})");
        }
        for i in 0..=model.len() {
            chk!(h, om.get_index(i).map(|(k, v)| (k.id, *v)) == model.get(i).copied(), "OrderedMap.get_index({i})");
        }
        chk!(h, os.iter().map(|k| k.id).collect::<Vec<_>>() == smodel, "OrderedSet iteration");
        chk!(h, os.len() == smodel.len() && us.len() == smodel.len(), "set len");
        let mut ussorted = smodel.clone();
        ussorted.sort();
        chk!(h, us.entries_sorted().into_iter().map(|k| k.id).collect::<Vec<_>>() == ussorted, "UnorderedSet.entries_sorted");
        chk!(h, v2.len() == vmodel.len(), "Vec2 len");
        chk!(h, v2.iter().map(|(a, b)| (*a, *b)).collect::<Vec<_>>() == vmodel, "Vec2 iteration");
        chk!(h, v2.iter().rev().map(|(a, b)| (*a, *b)).collect::<Vec<_>>() == vmodel.iter().rev().copied().collect::<Vec<_>>(), "Vec2 reverse iteration");
        for i in 0..=vmodel.len() {
            chk!(h, v2.get(i).map(|(a, b)| (*a, *b)) == vmodel.get(i).copied(), "Vec2.get({i})");
        }
        chk!(h, v2.first().map(|(a, b)| (*a, *b)) == vmodel.first().copied() && v2.last().map(|(a, b)| (*a, *b)) == vmodel.last().copied(), "Vec2 first/last");
        if !h.fails.is_empty() {
            break;
        }
    }
    h
}

fn finish(h: Hist, kind: &str, steps: usize) -> CaseResult {
    let sample = format!(
        "{kind} mode={:?} universe={} steps<={steps} history=[{}]",
        h.mode,
        h.universe,
        h.trace.join("; ")
    );
    let mut r = CaseResult::new(sample);
    r.evals = h.trace.len().max(1) as u64;
    if h.up >= 1 {
        r.label("crossed_up");
    }
    if h.down >= 1 {
        r.label("crossed_down");
    }
    if h.up + h.down >= 2 && h.up >= 1 && h.down >= 1 {
        r.label("crossed_twice");
    }
    if h.mode.colliding() {
        r.label("colliding");
    }
    if h.mode.raw() {
        r.label("raw_hashes");
    }
    match kind {
        "SmallMap" => r.label("smallmap"),
        "SmallSet" => r.label("smallset"),
        _ => r.label("others"),
    }
    if h.up >= 1 && h.down >= 1 && h.removal_after_growth {
        r.nontrivial_self();
    }
    for f in h.fails {
        r.fail("model-mismatch", f);
    }
    r
}

const EXH_MAGIC: u32 = 0xEEEE_EE11;
const EXH_OPS: u32 = 11;
const EXH_LEN: usize = 4;

fn run_exhaustive_case(prefill: usize, mode: HashMode, ops: &[u32]) -> CaseResult {
    let universe = 24u16;
    let mut h = Hist { mode, universe, trace: Vec::new(), fails: Vec::new(), up: 0, down: 0, removal_after_growth: false, max_len: 0 };
    let mut m: SmallMap<K, u32> = SmallMap::new();
    let mut model: Vec<(u16, u32)> = Vec::new();
    for i in 0..prefill {
        // descending ids so that sort_keys is not a no-op
        let id = (20 - i) as u16;
        m.insert_hashed(mode.hashed(id), i as u32);
        model.push((id, i as u32));
    }
    h.max_len = prefill;
    check_map(&mut h, &m, &model);
    for op in ops {
        let before = model.len();
        let mut removal = false;
        match op {
            0 => {
                h.trace.push("insert(21)".into());
                let g = m.insert_hashed(mode.hashed(21), 100);
                chk!(h, g == model_insert(&mut model, 21, 100), "insert");
            }
            1 => {
                h.trace.push("insert(22)".into());
                let g = m.insert_hashed(mode.hashed(22), 101);
                chk!(h, g == model_insert(&mut model, 22, 101), "insert");
            }
            2 => {
                h.trace.push("insert(first existing)".into());
                if let Some((id, _)) = model.first().copied() {
                    let g = m.insert_hashed(mode.hashed(id), 102);
                    chk!(h, g == model_insert(&mut model, id, 102), "insert existing");
                }
            }
            3 => {
                h.trace.push("remove(first)".into());
                removal = true;
                if let Some((id, v)) = model.first().copied() {
                    model.remove(0);
                    let g = m.shift_remove_hashed(mode.hashed(id).as_ref());
                    chk!(h, g == Some(v), "remove first");
                }
            }
            4 => {
                h.trace.push("remove(last key)".into());
                removal = true;
                if let Some((id, v)) = model.last().copied() {
                    model.pop();
                    let g = m.shift_remove_hashed(mode.hashed(id).as_ref());
                    chk!(h, g == Some(v), "remove last");
                }
            }
            5 => {
                h.trace.push("remove(middle)".into());
                removal = true;
                if !model.is_empty() {
                    let (id, v) = model.remove(model.len() / 2);
                    let g = m.shift_remove_hashed_entry(mode.hashed(id).as_ref());
                    chk!(h, g.map(|(k, v)| (k.id, v)) == Some((id, v)), "remove middle");
                }
            }
            6 => {
                h.trace.push("pop".into());
                removal = true;
                let g = m.pop().map(|(k, v)| (k.id, v));
                chk!(h, g == model.pop(), "pop");
            }
            7 => {
                h.trace.push("reverse".into());
                m.reverse();
                model.reverse();
            }
            8 => {
                h.trace.push("sort_keys".into());
                m.sort_keys();
                model.sort_by_key(|x| x.0);
            }
            9 => {
                h.trace.push("retain(drop second)".into());
                removal = true;
                let drop = model.get(1).map(|x| x.0);
                m.retain(|k, _| Some(k.id) != drop);
                model.retain(|x| Some(x.0) != drop);
            }
            _ => {
                h.trace.push("shift_remove_index(0) + maybe_drop_index".into());
                removal = true;
                let g = m.shift_remove_index(0).map(|(k, v)| (k.id, v));
                let w = if model.is_empty() { None } else { Some(model.remove(0)) };
                chk!(h, g == w, "shift_remove_index(0)");
                m.maybe_drop_index();
            }
        }
        h.note_len(before, model.len(), removal);
        check_map(&mut h, &m, &model);
        if !h.fails.is_empty() {
            break;
        }
    }
    let mode_idx = MODES.iter().position(|x| *x == mode).unwrap() as u32;
    let mut r = finish(h, "SmallMap", ops.len());
    r.sample = format!("[enumerated prefill={prefill}] {}", r.sample);
    r.replay = std::iter::once(EXH_MAGIC).chain([prefill as u32, mode_idx, ops.len() as u32]).chain(ops.iter().copied()).collect();
    r
}

impl Prop for C11 {
    fn id(&self) -> &'static str {
        "C11"
    }
    fn cases(&self, tier: Tier) -> u64 {
        match tier {
            Tier::Quick => 300_000,
            Tier::Thorough => 3_000_000,
        }
    }
    fn choice_len(&self, _tier: Tier) -> (usize, usize) {
        (20, 700)
    }
    fn rule(&self) -> String {
        "Random part: a history = container family (SmallMap / SmallSet / {OrderedMap,OrderedSet,UnorderedMap,UnorderedSet,Vec2,Sorted*}) x hash mode (honest distinct / honest colliding / 5 adversarial raw 32-bit patterns via Hashed::new_unchecked) x universe 8..64 keys x up to 160 operations drawn by proptest from the op catalogue; after EVERY step the container is compared with a Vec model (content, order, every key of the universe by key/index/position, iterators both directions, size hints, clone equality). Enumerated part: every sequence of length <= 4 over 11 core operations from prefilled sizes {0,15,16,17,18} x 3 hash modes. evaluations = operations applied (each followed by the full comparison). Non-trivial = the history crossed the 16-entry index threshold upward AND downward and removed an entry after having grown past it; distinct = distinct rendered history.".into()
    }
    fn assumptions(&self) -> Vec<String> {
        vec![
            "insert_unique_unchecked is only called when the model says the key is absent (documented precondition)".into(),
            "raw-hash histories use only *_hashed APIs so that every key keeps one hash".into(),
            "stable toolchain build: NO_INDEX_THRESHOLD = 16 (the nightly fuzz target covers 32 + SIMD probe)".into(),
        ]
    }
    fn floors(&self) -> Vec<(&'static str, f64)> {
        vec![("crossed_twice", 0.25), ("colliding", 0.30), ("smallmap", 0.2), ("smallset", 0.1), ("others", 0.1)]
    }
    fn run(&self, _ctx: &mut Ctx, ch: &mut Choices) -> CaseResult {
        let first = ch.raw();
        if first == EXH_MAGIC {
            let prefill = ch.raw() as usize % 64;
            let mode = MODES[ch.raw() as usize % MODES.len()];
            let n = (ch.raw() as usize).min(8);
            let ops: Vec<u32> = (0..n).map(|_| ch.raw() % EXH_OPS).collect();
            return run_exhaustive_case(prefill, mode, &ops);
        }
        let kind = ((first as u64 * 10) >> 32) as u32;
        let mode = MODES[ch.idx(MODES.len())];
        let universe = *ch.pick(&[8u16, 20, 24, 34, 40, 64]);
        let steps = 160;
        match kind {
            0..=4 => finish(run_smallmap(ch, mode, universe, steps), "SmallMap", steps),
            5..=7 => finish(run_smallset(ch, mode, universe, steps), "SmallSet", steps),
            _ => finish(run_others(ch, mode, universe, steps), "Others", steps),
        }
    }
    fn has_exhaustive(&self) -> bool {
        true
    }
    fn exhaustive(&self, ctx: &mut Ctx, sink: &mut dyn FnMut(CaseResult)) {
        let modes = [HashMode::HonestDistinct, HashMode::RawAllEqual, HashMode::RawEqualLow];
        let prefills = [0usize, 15, 16, 17, 18];
        let mut idx = 0usize;
        for len in 0..=EXH_LEN {
            let total = (EXH_OPS as usize).pow(len as u32);
            for code in 0..total {
                idx += 1;
                if idx % ctx.workers != ctx.worker {
                    continue;
                }
                let mut ops = Vec::with_capacity(len);
                let mut c = code;
                for _ in 0..len {
                    ops.push((c % EXH_OPS as usize) as u32);
                    c /= EXH_OPS as usize;
                }
                for mode in modes {
                    for prefill in prefills {
                        sink(run_exhaustive_case(prefill, mode, &ops));
                    }
                }
            }
        }
    }
}
