//! C13 — frozen values stay alive as long as anything that can reach them is alive.
//! Histories over a small object graph (frozen modules, owned handles, globals, modules built from
//! handles) with drops in any order, also on other threads; after every step every value still
//! reachable from a live root must encode exactly as at creation. Freed arenas are poisoned (hook H2).

use std::collections::BTreeMap;
use std::collections::HashMap;

use starlark::environment::FrozenModule;
use starlark::environment::Globals;
use starlark::environment::GlobalsBuilder;
use starlark::environment::Module;
use starlark::eval::Evaluator;
use starlark::eval::ReturnFileLoader;
use starlark::values::FrozenHeap;
use starlark::values::FrozenHeapName;
use starlark::values::FrozenHeapRef;
use starlark::values::FrozenValue;
use starlark::values::OwnedFrozen;
use starlark::values::Value;

use crate::engine::*;
use crate::sl;

pub struct C13;

struct ModObj {
    fm: FrozenModule,
    /// name -> expected encoding (functions: encoding of calling them with no arguments)
    expect: BTreeMap<String, String>,
    /// exported symbol names other modules may load
    symbols: Vec<String>,
    depends_on_dropped: bool,
    chain: usize,
}

struct HandleObj {
    h: OwnedFrozen<Value<'static>>,
    expect: String,
    is_fn: bool,
    from_dropped: bool,
}

/// A frozen heap that received values of other heaps through `add_to_frozen_heap` (which records the reference),
/// with or without allocations of its own; sealed with `into_ref_named`. The ref is the only owner we keep.
struct FwdHeapObj {
    heap: FrozenHeapRef,
    vals: Vec<(FrozenValue, String)>,
    from_dropped: bool,
}

/// A `Globals` whose values came from handles (`add_to_frozen_heap(builder.frozen_heap())` + `set`).
struct GlobalsObj {
    g: Globals,
    names: Vec<(String, String)>,
    from_dropped: bool,
}

struct World {
    mods: Vec<Option<ModObj>>,
    handles: Vec<Option<HandleObj>>,
    fwd: Vec<Option<FwdHeapObj>>,
    globals: Vec<Option<GlobalsObj>>,
    log: Vec<String>,
    fails: Vec<String>,
    checks: u64,
    dangling_reads: u64,
    cross_thread_drops: u64,
    max_chain: usize,
}

fn encode_callable_or_value<'v>(v: Value<'v>, eval: &mut Evaluator<'v, '_, '_>) -> String {
    if v.get_type() == "function" {
        match eval.eval_function(v, &[], &[]) {
            Ok(r) => format!("call:{}", sl::encode(r)),
            Err(e) => format!("callerr:{}", e.without_diagnostic()),
        }
    } else {
        sl::encode(v)
    }
}

fn observe_frozen(v: FrozenValue) -> String {
    Module::with_temp_heap(|m| {
        let mut eval = Evaluator::new(&m);
        let _ = eval.set_max_tick_count(1_000_000);
        encode_callable_or_value(v.to_value(), &mut eval)
    })
}

fn observe_global(g: &Globals, name: &str) -> String {
    let Ok(ast) = sl::parse("g.star", &format!("{name}\n"), &sl::dialect_all()) else { return "parse-error".into() };
    Module::with_temp_heap(|m| {
        let mut eval = Evaluator::new(&m);
        let _ = eval.set_max_tick_count(1_000_000);
        match eval.eval_module(ast, g) {
            Ok(v) => encode_callable_or_value(v, &mut eval),
            Err(e) => format!("evalerr:{}", e.without_diagnostic()),
        }
    })
}

fn observe_handle(h: &OwnedFrozen<Value<'static>>) -> String {
    let h2 = h.clone();
    Module::with_temp_heap(|m| {
        let v = h2.add_to_heap(m.heap());
        let mut eval = Evaluator::new(&m);
        let _ = eval.set_max_tick_count(1_000_000);
        encode_callable_or_value(v, &mut eval)
    })
}

impl World {
    fn live_mods(&self) -> Vec<usize> {
        self.mods.iter().enumerate().filter(|(_, m)| m.is_some()).map(|x| x.0).collect()
    }

    /// Invariant over the history: encodings never change.
    fn check_all(&mut self) {
        let mut fails = Vec::new();
        for (i, m) in self.mods.iter().enumerate() {
            let Some(m) = m else { continue };
            for (name, want) in &m.expect {
                self.checks += 1;
                if m.depends_on_dropped {
                    self.dangling_reads += 1;
                }
                match m.fm.get_owned(name) {
                    Ok(h) => {
                        let got = observe_handle(&h);
                        if got != *want {
                            fails.push(format!("module m{i}.{name}: now {} , at creation {}", truncate(&got, 300), truncate(want, 300)));
                        }
                    }
                    Err(e) => fails.push(format!("module m{i}.{name} vanished: {e}")),
                }
            }
        }
        for (i, h) in self.handles.iter().enumerate() {
            let Some(h) = h else { continue };
            self.checks += 1;
            if h.from_dropped {
                self.dangling_reads += 1;
            }
            let got = observe_handle(&h.h);
            // also the non-allocating access path
            let direct = if h.is_fn { None } else { Some(h.h.by_ref(|v| sl::encode(*v))) };
            if got != h.expect || direct.as_ref().map(|d| *d != h.expect).unwrap_or(false) {
                fails.push(format!("handle h{i}: now {} / {:?}, at creation {}", truncate(&got, 300), direct.map(|d| truncate(&d, 200)), truncate(&h.expect, 300)));
            }
        }
        for (i, f) in self.fwd.iter().enumerate() {
            let Some(f) = f else { continue };
            for (j, (v, want)) in f.vals.iter().enumerate() {
                self.checks += 1;
                if f.from_dropped {
                    self.dangling_reads += 1;
                }
                let got = observe_frozen(*v);
                if got != *want {
                    fails.push(format!("forwarding heap fh{i} value #{j}: now {} , at creation {}", truncate(&got, 300), truncate(want, 300)));
                }
            }
        }
        for (i, g) in self.globals.iter().enumerate() {
            let Some(g) = g else { continue };
            for (name, want) in &g.names {
                self.checks += 1;
                if g.from_dropped {
                    self.dangling_reads += 1;
                }
                let got = observe_global(&g.g, name);
                if got != *want {
                    fails.push(format!("globals g{i}.{name}: now {} , at creation {}", truncate(&got, 300), truncate(want, 300)));
                }
            }
        }
        for f in fails {
            if self.fails.len() < 3 {
                self.fails.push(format!("after [{}]: {f}", self.log.last().cloned().unwrap_or_default()));
            }
        }
    }

    fn build_module(&mut self, ch: &mut Choices) {
        let k = self.mods.len();
        let live = self.live_mods();
        let mut src = String::new();
        let mut loads: Vec<(usize, String, String)> = Vec::new(); // (module, their symbol, local name)
        let nloads = if live.is_empty() { 0 } else { ch.idx(3) };
        for j in 0..nloads {
            let i = live[ch.idx(live.len())];
            let syms = self.mods[i].as_ref().unwrap().symbols.clone();
            let sym = syms[ch.idx(syms.len())].clone();
            let local = format!("imp{k}_{j}");
            if !loads.iter().any(|l| l.0 == i && l.1 == sym) {
                loads.push((i, sym, local));
            }
        }
        for (i, sym, local) in &loads {
            src.push_str(&format!("load(\"m{i}.star\", {local} = \"{sym}\")\n"));
        }
        let imported: Vec<String> = loads.iter().map(|l| l.2.clone()).collect();
        let imp_list = if imported.is_empty() { "[]".to_owned() } else { format!("[{}]", imported.join(", ")) };
        src.push_str(&format!("x{k} = [\"mod{k}\", [{k}, {}], {{\"k\": \"v{k}\" * 3}}]\n", k + 1));
        src.push_str(&format!("s{k} = \"string-of-module-{k}-\" * 4\n"));
        src.push_str(&format!("emb{k} = {{\"embedded\": {imp_list}, \"own\": x{k}}}\n"));
        if let Some(first) = imported.first() {
            src.push_str(&format!("re{k} = {first}\n"));
        } else {
            src.push_str(&format!("re{k} = x{k}\n"));
        }
        src.push_str(&format!("def f{k}():\n    return (x{k}, {imp_list}, s{k})\n"));
        src.push_str(&format!("def g{k}(d = {imp_list}, e = x{k}):\n    return [d, e]\n"));
        src.push_str(&format!("def _mk{k}():\n    box = [x{k}, {imp_list}]\n    return lambda: box\nlam{k} = _mk{k}()\n"));
        src.push_str(&format!("Rec{k} = record(a = typing.Any)\nt{k} = (Rec{k}(a = {imp_list}), struct(p = x{k}))\n"));
        // constants of every representation: inline (None, bool, small int), statically allocated strings ("" and one
        // ASCII character), and values that look small but live in this module's heap (one non-ASCII character, two
        // characters, big int, float)
        src.push_str(&format!("cn{k} = None\ncb{k} = True\nci{k} = {}\ncbig{k} = (1 << 70) + {k}\ncf{k} = {k}.5\nce{k} = \"\"\nca{k} = \"a\"\ncu{k} = \"é\"\ncw{k} = \"→\"\nc2{k} = \"x{}\"\n", 7 + k, k % 10));
        let symbols: Vec<String> = ["x", "s", "emb", "re", "f", "g", "lam", "t", "cn", "cb", "ci", "cbig", "cf", "ce", "ca", "cu", "cw", "c2"].iter().map(|p| format!("{p}{k}")).collect();
        // which Globals: the shared static one or a temporary one (its heap must be kept alive by the module)
        let use_temp_globals = ch.chance(1, 3);
        let temp_globals: Option<Globals> = if use_temp_globals {
            let mut b = GlobalsBuilder::extended_by(&[
                starlark::environment::LibraryExtension::StructType,
                starlark::environment::LibraryExtension::RecordType,
                starlark::environment::LibraryExtension::Typing,
                starlark::environment::LibraryExtension::Partial,
            ]);
            b.set(&format!("gconst{k}"), format!("globals-heap-string-{k}-").repeat(5));
            Some(b.build())
        } else {
            None
        };
        if use_temp_globals {
            src.push_str(&format!("gc{k} = [gconst{k}, x{k}]\n"));
        }
        let modmap: Vec<(String, &FrozenModule)> = loads.iter().map(|(i, _, _)| (format!("m{i}.star"), &self.mods[*i].as_ref().unwrap().fm)).collect();
        let map: HashMap<&str, &FrozenModule> = modmap.iter().map(|(n, f)| (n.as_str(), *f)).collect();
        let ast = match sl::parse(&format!("m{k}.star"), &src, &sl::dialect_all()) {
            Ok(a) => a,
            Err(e) => {
                self.fails.push(format!("generator bug: parse {e}\n{src}"));
                return;
            }
        };
        let fm = Module::with_temp_heap(|module| {
            {
                let loader = ReturnFileLoader { modules: &map };
                let mut eval = Evaluator::new(&module);
                eval.set_loader(&loader);
                let g = temp_globals.as_ref().unwrap_or(sl::globals());
                if let Err(e) = eval.eval_module(ast, g) {
                    return Err(format!("eval: {}\n{src}", e.without_diagnostic()));
                }
            }
            module.freeze_named(FrozenHeapName::user(&format!("m{k}.star"))).map_err(|e| format!("freeze: {e:?}"))
        });
        // the temporary Globals is dropped here, before the module is used
        drop(temp_globals);
        let fm = match fm {
            Ok(f) => f,
            Err(e) => {
                self.fails.push(format!("generator bug: {e}"));
                return;
            }
        };
        let mut expect = BTreeMap::new();
        let mut syms = symbols.clone();
        if use_temp_globals {
            syms.push(format!("gc{k}"));
        }
        for s in &syms {
            if let Ok(h) = fm.get_owned(s) {
                expect.insert(s.clone(), observe_handle(&h));
            }
        }
        let chain = 1 + loads.iter().map(|(i, _, _)| self.mods[*i].as_ref().unwrap().chain).max().unwrap_or(0);
        self.max_chain = self.max_chain.max(chain);
        self.log.push(format!("m{k} = freeze(loads {:?}{})", loads.iter().map(|l| format!("m{}.{}", l.0, l.1)).collect::<Vec<_>>(), if use_temp_globals { ", temporary Globals dropped" } else { "" }));
        self.mods.push(Some(ModObj { fm, expect, symbols, depends_on_dropped: false, chain }));
    }

    fn take_handle(&mut self, ch: &mut Choices) {
        let live = self.live_mods();
        if live.is_empty() {
            return;
        }
        let i = live[ch.idx(live.len())];
        let m = self.mods[i].as_ref().unwrap();
        let names: Vec<String> = m.expect.keys().cloned().collect();
        let name = names[ch.idx(names.len())].clone();
        if let Ok(h) = m.fm.get_owned(&name) {
            // optionally through OwnedFrozen::map (identity on the value, new handle)
            let h = if ch.bool() { h.map::<Value<'static>, _>(|v| v) } else { h };
            let expect = m.expect[&name].clone();
            self.log.push(format!("h{} = m{i}.get_owned({name})", self.handles.len()));
            let is_fn = expect.starts_with("call");
            self.handles.push(Some(HandleObj { h, expect, is_fn, from_dropped: false }));
        }
    }

    /// A new module whose variable is a handle's value added to its heap, then frozen.
    fn module_from_handle(&mut self, ch: &mut Choices) {
        let live: Vec<usize> = self.handles.iter().enumerate().filter(|(_, h)| h.is_some()).map(|x| x.0).collect();
        if live.is_empty() {
            return;
        }
        let hi = live[ch.idx(live.len())];
        let k = self.mods.len();
        let (h, expect, from_dropped) = {
            let ho = self.handles[hi].as_ref().unwrap();
            (ho.h.clone(), ho.expect.clone(), ho.from_dropped)
        };
        let fm = Module::with_temp_heap(|module| {
            let v = h.add_to_heap(module.heap());
            module.set(&format!("x{k}"), v);
            let wrapped = module.heap().alloc(vec![v, module.heap().alloc(format!("wrapper-{k}"))]);
            module.set(&format!("s{k}"), wrapped);
            module.freeze_named(FrozenHeapName::user(&format!("m{k}.star")))
        });
        let Ok(fm) = fm else {
            self.fails.push("freeze of handle module failed".into());
            return;
        };
        let mut exp = BTreeMap::new();
        exp.insert(format!("x{k}"), expect);
        if let Ok(hh) = fm.get_owned(&format!("s{k}")) {
            exp.insert(format!("s{k}"), observe_handle(&hh));
        }
        self.log.push(format!("m{k} = module holding h{hi} (add_to_heap) frozen"));
        self.mods.push(Some(ModObj { fm, expect: exp, symbols: vec![format!("x{k}"), format!("s{k}")], depends_on_dropped: from_dropped, chain: 1 }));
    }

    fn live_handles(&self) -> Vec<usize> {
        self.handles.iter().enumerate().filter(|(_, h)| h.is_some()).map(|x| x.0).collect()
    }

    /// A new frozen heap that takes over 1..3 handle values through add_to_frozen_heap; 0..2 allocations of its own.
    fn forwarding_heap(&mut self, ch: &mut Choices) {
        let live = self.live_handles();
        if live.is_empty() {
            return;
        }
        let heap = FrozenHeap::new();
        let own = ch.idx(3);
        let mut vals: Vec<(FrozenValue, String)> = Vec::new();
        for i in 0..own {
            let v = heap.alloc(format!("own-string-{i}-of-forwarding-heap-").repeat(3));
            vals.push((v, String::new()));
        }
        let n = 1 + ch.idx(3);
        let mut from_dropped = false;
        let mut used = Vec::new();
        for _ in 0..n {
            let hi = live[ch.idx(live.len())];
            let ho = self.handles[hi].as_ref().unwrap();
            let Some(fv) = ho.h.as_ref().add_to_frozen_heap(&heap).unpack_frozen() else { continue };
            from_dropped |= ho.from_dropped;
            vals.push((fv, ho.expect.clone()));
            used.push(hi);
        }
        let k = self.fwd.len();
        let heap = heap.into_ref_named(FrozenHeapName::user(&format!("fh{k}")));
        for (v, e) in vals.iter_mut() {
            if e.is_empty() {
                *e = observe_frozen(*v);
            }
        }
        self.log.push(format!("fh{k} = FrozenHeap with {own} own value(s) + add_to_frozen_heap of h{used:?}, sealed"));
        self.fwd.push(Some(FwdHeapObj { heap, vals, from_dropped }));
    }

    /// A Globals built from handle values: add_to_frozen_heap(builder.frozen_heap()) + set.
    fn globals_from_handles(&mut self, ch: &mut Choices) {
        let live = self.live_handles();
        if live.is_empty() {
            return;
        }
        let k = self.globals.len();
        let mut b = if ch.bool() { GlobalsBuilder::new() } else { GlobalsBuilder::standard() };
        let short_names = ch.bool();
        let n = 1 + ch.idx(2);
        let mut names = Vec::new();
        let mut from_dropped = false;
        let mut used = Vec::new();
        for j in 0..n {
            let hi = live[ch.idx(live.len())];
            let ho = self.handles[hi].as_ref().unwrap();
            let Some(fv) = ho.h.as_ref().add_to_frozen_heap(b.frozen_heap()).unpack_frozen() else { continue };
            let name = if short_names { ["x", "y", "z"][j % 3].to_owned() } else { format!("from_handle_{j}") };
            b.set(&name, fv);
            from_dropped |= ho.from_dropped;
            names.push((name, ho.expect.clone()));
            used.push(hi);
        }
        if ch.chance(1, 3) {
            b.set("own_global", format!("globals-own-{k}-").repeat(4));
        }
        let g = b.build();
        self.log.push(format!("g{k} = Globals with values of h{used:?} (add_to_frozen_heap + set{})", if short_names { ", one-character names" } else { "" }));
        self.globals.push(Some(GlobalsObj { g, names, from_dropped }));
    }

    /// A new module that takes every public symbol of a live frozen module through `import_public_symbols` (the
    /// embedder-side twin of load()), re-exports some of them directly and inside a container, and is frozen.
    fn module_import_public(&mut self, ch: &mut Choices) {
        let live = self.live_mods();
        if live.is_empty() {
            return;
        }
        let i = live[ch.idx(live.len())];
        let k = self.mods.len();
        let (syms, expects, dep) = {
            let m = self.mods[i].as_ref().unwrap();
            (m.symbols.clone(), m.expect.clone(), m.depends_on_dropped)
        };
        let picked: Vec<String> = (0..(1 + ch.idx(3))).map(|_| syms[ch.idx(syms.len())].clone()).collect();
        let mut src = String::new();
        for (j, sname) in picked.iter().enumerate() {
            src.push_str(&format!("re{k}_{j} = {sname}\n"));
        }
        src.push_str(&format!("x{k} = [\"holder-{k}\", {}]\n", picked.join(", ")));
        let Ok(ast) = sl::parse(&format!("m{k}.star"), &src, &sl::dialect_all()) else { return };
        let fm = {
            let src_fm = &self.mods[i].as_ref().unwrap().fm;
            Module::with_temp_heap(|module| {
                module.import_public_symbols(src_fm);
                {
                    let mut eval = Evaluator::new(&module);
                    if let Err(e) = eval.eval_module(ast, sl::globals()) {
                        return Err(format!("eval after import_public_symbols: {}\n{src}", e.without_diagnostic()));
                    }
                }
                module.freeze_named(FrozenHeapName::user(&format!("m{k}.star"))).map_err(|e| format!("freeze: {e:?}"))
            })
        };
        let fm = match fm {
            Ok(f) => f,
            Err(e) => {
                self.fails.push(format!("generator bug: {e}"));
                return;
            }
        };
        let mut exp = BTreeMap::new();
        let mut symbols = Vec::new();
        for (j, sname) in picked.iter().enumerate() {
            if let Some(e) = expects.get(sname) {
                exp.insert(format!("re{k}_{j}"), e.clone());
                symbols.push(format!("re{k}_{j}"));
            }
        }
        if let Ok(h) = fm.get_owned(&format!("x{k}")) {
            exp.insert(format!("x{k}"), observe_handle(&h));
            symbols.push(format!("x{k}"));
        }
        if symbols.is_empty() {
            return;
        }
        let chain = 1 + self.mods[i].as_ref().unwrap().chain;
        self.max_chain = self.max_chain.max(chain);
        self.log.push(format!("m{k} = module with import_public_symbols(m{i}), re-exports {picked:?}, frozen"));
        self.mods.push(Some(ModObj { fm, expect: exp, symbols, depends_on_dropped: dep, chain }));
    }

    fn module_from_globals(&mut self) {
        let k = self.mods.len();
        let mut b = GlobalsBuilder::standard();
        b.set(&format!("x{k}"), format!("value-in-globals-heap-{k}-").repeat(6));
        b.set(&format!("s{k}"), vec![1, 2, k as i32]);
        let g = b.build();
        let fm = FrozenModule::from_globals(&g);
        drop(g);
        let Ok(fm) = fm else {
            self.fails.push("from_globals failed".into());
            return;
        };
        let mut exp = BTreeMap::new();
        for s in [format!("x{k}"), format!("s{k}")] {
            if let Ok(h) = fm.get_owned(&s) {
                exp.insert(s.clone(), observe_handle(&h));
            }
        }
        self.log.push(format!("m{k} = FrozenModule::from_globals(temporary Globals), Globals dropped"));
        self.mods.push(Some(ModObj { fm, expect: exp, symbols: vec![format!("x{k}"), format!("s{k}")], depends_on_dropped: true, chain: 1 }));
    }

    fn drop_something(&mut self, ch: &mut Choices) {
        let other_thread = ch.chance(1, 3);
        let live_m = self.live_mods();
        let live_h: Vec<usize> = self.handles.iter().enumerate().filter(|(_, h)| h.is_some()).map(|x| x.0).collect();
        if live_m.is_empty() && live_h.is_empty() {
            return;
        }
        let pick_mod = !live_m.is_empty() && (live_h.is_empty() || ch.chance(2, 3));
        let live_f: Vec<usize> = self.fwd.iter().enumerate().filter(|(_, h)| h.is_some()).map(|x| x.0).collect();
        let live_g: Vec<usize> = self.globals.iter().enumerate().filter(|(_, h)| h.is_some()).map(|x| x.0).collect();
        if (!live_f.is_empty() || !live_g.is_empty()) && ch.chance(1, 6) {
            if !live_f.is_empty() && (live_g.is_empty() || ch.bool()) {
                let i = live_f[ch.idx(live_f.len())];
                let f = self.fwd[i].take();
                self.log.push(format!("drop fh{i}{}", if other_thread { " on another thread" } else { "" }));
                if other_thread {
                    self.cross_thread_drops += 1;
                    // FrozenValue handles are plain pointers; only the heap reference decides lifetime
                    let heap = f.map(|f| f.heap);
                    let _ = std::thread::spawn(move || drop(heap)).join();
                } else {
                    drop(f);
                }
            } else {
                let i = live_g[ch.idx(live_g.len())];
                let g = self.globals[i].take();
                self.log.push(format!("drop g{i}{}", if other_thread { " on another thread" } else { "" }));
                if other_thread {
                    self.cross_thread_drops += 1;
                    let g = g.map(|g| g.g);
                    let _ = std::thread::spawn(move || drop(g)).join();
                } else {
                    drop(g);
                }
            }
        } else if pick_mod {
            let i = live_m[ch.idx(live_m.len())];
            let m = self.mods[i].take().unwrap();
            // everything created from this module now depends on a dropped owner
            for o in self.mods.iter_mut().flatten() {
                o.depends_on_dropped = true;
            }
            for h in self.handles.iter_mut().flatten() {
                h.from_dropped = true;
            }
            for f in self.fwd.iter_mut().flatten() {
                f.from_dropped = true;
            }
            for g in self.globals.iter_mut().flatten() {
                g.from_dropped = true;
            }
            self.log.push(format!("drop m{i}{}", if other_thread { " on another thread" } else { "" }));
            if other_thread {
                self.cross_thread_drops += 1;
                let _ = std::thread::spawn(move || drop(m)).join();
            } else {
                drop(m);
            }
        } else {
            let i = live_h[ch.idx(live_h.len())];
            let h = self.handles[i].take().unwrap();
            self.log.push(format!("drop h{i}{}", if other_thread { " on another thread" } else { "" }));
            if other_thread {
                self.cross_thread_drops += 1;
                let _ = std::thread::spawn(move || drop(h)).join();
            } else {
                drop(h);
            }
        }
        // churn: allocate and drop a scratch frozen heap so that released chunks get reused
        let _ = sl::run_and_freeze("scratch.star", "z = [str(i) * 3 for i in range(200)]\n", &sl::RunCfg::default(), &[]);
    }
}

impl Prop for C13 {
    fn id(&self) -> &'static str {
        "C13"
    }
    fn cases(&self, tier: Tier) -> u64 {
        match tier {
            Tier::Quick => 60_000,
            Tier::Thorough => 250_000,
        }
    }
    fn choice_len(&self, _tier: Tier) -> (usize, usize) {
        (20, 300)
    }
    fn rule(&self) -> String {
        "Case = history of up to 30 steps over <= 8 modules: build+freeze a module that loads symbols from live frozen modules (direct load, re-export alias, embedded in a new dict, captured by a def, default argument, captured by a lambda over a local, inside record/struct values), optionally evaluated with a temporary Globals that is dropped right after (its heap holds a string the module references); take owned handles (plain or through OwnedFrozen::map); build a module through Module::import_public_symbols of a live frozen module that re-exports some symbols directly and in a container; forwarding heaps (FrozenHeap receiving handle values through add_to_frozen_heap, with or without own allocations) and Globals built from handle values; build a module from a handle via add_to_heap and freeze it; FrozenModule::from_globals on a temporary Globals; drop any module or handle in any order, a third of the time on another thread, each drop followed by allocation churn. Invariant after EVERY step: every exported value of every live module and every live handle encodes exactly as at creation (functions: the encoding of calling them), through add_to_heap and through by_ref. Freed arenas are overwritten with 0x5A (hook H2). evaluations = value observations. Non-trivial = a value was read after a heap it (transitively) lives in lost its original owner; distinct = distinct history.".into()
    }
    fn assumptions(&self) -> Vec<String> {
        vec!["only operations whose documentation makes the library responsible for heap references are generated (load, get_owned, OwnedFrozen::map/add_to_heap/by_ref, from_globals); raw FrozenHeap::alloc of foreign values without add_reference is a documented caller obligation and is never generated".into()]
    }
    fn floors(&self) -> Vec<(&'static str, f64)> {
        vec![("read_after_owner_dropped", 0.5), ("chain2", 0.25), ("cross_thread_drop", 0.15)]
    }
    fn run(&self, _ctx: &mut Ctx, ch: &mut Choices) -> CaseResult {
        let mut w = World { mods: Vec::new(), handles: Vec::new(), fwd: Vec::new(), globals: Vec::new(), log: Vec::new(), fails: Vec::new(), checks: 0, dangling_reads: 0, cross_thread_drops: 0, max_chain: 0 };
        w.build_module(ch);
        let steps = 4 + ch.idx(26);
        let mut labels_extra: Vec<&'static str> = Vec::new();
        for _ in 0..steps {
            if ch.exhausted() || !w.fails.is_empty() {
                break;
            }
            match ch.weighted(&[5, 4, 2, 1, 6, 2, 2, 2]) {
                7 => {
                    if w.mods.len() < 8 {
                        w.module_import_public(ch);
                        labels_extra.push("import_public_symbols");
                    }
                }
                5 => {
                    if w.fwd.len() < 6 {
                        w.forwarding_heap(ch);
                        labels_extra.push("forwarding_heap");
                    }
                }
                6 => {
                    if w.globals.len() < 6 {
                        w.globals_from_handles(ch);
                        labels_extra.push("globals_from_handles");
                    }
                }
                0 => {
                    if w.mods.len() < 8 {
                        w.build_module(ch)
                    } else {
                        w.drop_something(ch)
                    }
                }
                1 => w.take_handle(ch),
                2 => {
                    if w.mods.len() < 8 {
                        w.module_from_handle(ch)
                    }
                }
                3 => {
                    if w.mods.len() < 8 {
                        w.module_from_globals()
                    }
                }
                _ => w.drop_something(ch),
            }
            w.check_all();
        }
        let mut r = CaseResult::new(w.log.join("; "));
        r.evals = w.checks.max(1);
        if w.dangling_reads > 0 {
            r.label("read_after_owner_dropped");
            r.nontrivial_self();
        }
        if w.max_chain >= 2 {
            r.label("chain2");
        }
        if w.max_chain >= 3 {
            r.label("chain3");
        }
        if w.cross_thread_drops > 0 {
            r.label("cross_thread_drop");
        }
        for l in labels_extra {
            r.label(l);
        }
        for f in w.fails {
            let class = if f.starts_with("generator bug") { "generator-bug" } else { "frozen-value-changed" };
            r.fail(class, f);
        }
        r
    }
}
