//! C02 — compile-time optimisation never changes what a program does (metamorphic).

use starlark::environment::Module;
use starlark::eval::Evaluator;

use crate::engine::*;
use crate::prog;
use crate::props::c01::classify_starlark_error;
use crate::sl;

pub struct C02;

#[derive(Debug, Clone, PartialEq)]
struct Obs {
    tx: Vec<String>,
    class: String,
    msg: String,
}

fn obs_of(out: &sl::Outcome) -> Obs {
    match &out.result {
        Ok(_) => Obs { tx: out.tx.clone(), class: "ok".into(), msg: String::new() },
        Err(e) => Obs { tx: out.tx.clone(), class: classify_starlark_error(e), msg: normalize_msg(&e.msg) },
    }
}

/// The message body must match exactly; only the rendering of `opaque(...)` wrappers inside quoted
/// source excerpts is not part of a message (messages never quote source, so nothing is stripped).
fn normalize_msg(m: &str) -> String {
    // Binding errors name the function as `<module file>.<name>`; the variants live in files with different names
    // (m.star, a.star, b.star) - an artefact of this harness, not of the optimiser.
    m.trim().replace("m.star.", "").replace("a.star.", "").replace("b.star.", "")
}

fn run_module(src: &str) -> Obs {
    obs_of(&sl::run_src("m.star", src, &sl::RunCfg::default(), &[]))
}

/// Module A defines `main` (and is frozen); module B loads and calls it; optionally the host calls it.
fn run_frozen(wrapped_def: &str, host_call: bool) -> Obs {
    let cfg = sl::RunCfg::default();
    let (out, fm) = sl::run_and_freeze("a.star", wrapped_def, &cfg, &[]);
    let Some(fm) = fm else {
        let mut o = obs_of(&out);
        o.class = format!("defining-module-failed:{}", o.class);
        return o;
    };
    if host_call {
        sl::tx_reset();
        let Ok(f) = fm.get_owned("main") else { return Obs { tx: vec![], class: "no-main".into(), msg: String::new() } };
        Module::with_temp_heap(|module| {
            let printer = sl::PrintToTx;
            let mut eval = Evaluator::new(&module);
            eval.set_print_handler(&printer);
            sl::setup_eval(&mut eval, &cfg);
            let fv = f.add_to_heap(module.heap());
            let r = eval.eval_function(fv, &[], &[]);
            let tx = sl::tx_take();
            match r {
                Ok(_) => Obs { tx, class: "ok".into(), msg: String::new() },
                Err(e) => {
                    let ei = sl::err_info(&e);
                    Obs { tx, class: classify_starlark_error(&ei), msg: normalize_msg(&ei.msg) }
                }
            }
        })
    } else {
        obs_of(&sl::run_src("b.star", "load(\"a.star\", \"main\")\nmain()\n", &cfg, &[("a.star", &fm)]))
    }
}

/// Splits a program at a top-level statement boundary: module A (prefix, frozen) and module B (rest, loads every
/// public name of A). Returns None when B rebinds or mutates something A defines (then the two-module program
/// legitimately differs: frozen values cannot be mutated and loaded names are separate bindings).
fn stmt_starts(plain: &str) -> Vec<usize> {
    plain.lines().enumerate().filter(|(_, l)| !l.is_empty() && !l.starts_with(' ') && !l.starts_with("elif ") && !l.starts_with("else:")).map(|x| x.0).collect()
}

/// Cut points right after a top-level `def` whose name is used by the next top-level statement (the split then puts the
/// def into the frozen module and its call sites into the loading one: the configuration in which call sites see a
/// frozen callee at compile time).
fn cuts_after_defs(plain: &str) -> Vec<usize> {
    let lines: Vec<&str> = plain.lines().collect();
    let starts = stmt_starts(plain);
    let mut out = Vec::new();
    for w in starts.windows(2) {
        let (a, b) = (w[0], w[1]);
        if let Some(rest) = lines[a].strip_prefix("def ") {
            let name = rest.split('(').next().unwrap_or("");
            if !name.is_empty() && lines[b].contains(&format!("{name}(")) && !lines[b].starts_with("def ") {
                out.push(b);
            }
        }
    }
    out
}

fn run_split(plain: &str, cut_choice: u32) -> Option<Obs> {
    let starts = stmt_starts(plain);
    if starts.len() < 3 {
        return None;
    }
    let cut = starts[1 + ((cut_choice as u64 * (starts.len() as u64 - 2)) >> 32) as usize];
    run_split_at(plain, cut)
}

fn run_split_at(plain: &str, cut: usize) -> Option<Obs> {
    let lines: Vec<&str> = plain.lines().collect();
    if cut == 0 || cut >= lines.len() {
        return None;
    }
    let a_src = lines[..cut].join("\n") + "\n";
    let b_body = lines[cut..].join("\n") + "\n";
    let cfg = sl::RunCfg::default();
    let (a_out, fm) = sl::run_and_freeze("a.star", &a_src, &cfg, &[]);
    let Some(fm) = fm else {
        // the failure happens in the prefix: the whole program must behave like the prefix alone
        return Some(obs_of(&a_out));
    };
    // only names that are actually bound (a conditionally assigned variable may be unassigned)
    let names: Vec<String> = fm.names().map(|n| n.as_str().to_owned()).filter(|n| !n.starts_with('_') && fm.get_owned(n).is_ok()).collect();
    // a name declared but not bound in A (assigned on a path not taken): reading it in B would be a static
    // "not found" instead of the run-time "referenced before assignment" - a legitimate difference of the split
    for n in fm.names().map(|n| n.as_str().to_owned()).filter(|n| fm.get_owned(n).is_err()) {
        if b_body.split(|c: char| !(c.is_alphanumeric() || c == '_')).any(|w| w == n) {
            return None;
        }
    }
    // any in-place mutation in B could reach a frozen value of A through an alias: no split then
    for m in [".append(", ".extend(", ".insert(", ".pop(", ".remove(", ".clear(", ".update(", ".setdefault(", ".popitem(", ".add(", ".discard(", "] = ", "] += ", "] -= ", "] |= ", "] &= ", "] ^= ", " += [", " += {"] {
        if b_body.contains(m) {
            return None;
        }
    }
    for n in &names {
        for l in b_body.lines() {
            let t = l.trim_start();
            let lhs = t.split(" = ").next().unwrap_or("");
            let is_assign = t.contains(" = ") || t.contains("= ") && (t.contains("+=") || t.contains("-=") || t.contains("|=") || t.contains("&=") || t.contains("^=") || t.contains("*="));
            let mentions = |text: &str| text.split(|c: char| !(c.is_alphanumeric() || c == '_')).any(|w| w == n);
            if is_assign && mentions(lhs.split("+=").next().unwrap_or(lhs).split("-=").next().unwrap_or(lhs).split("|=").next().unwrap_or(lhs).split("&=").next().unwrap_or(lhs).split("^=").next().unwrap_or(lhs)) {
                return None;
            }
            if t.starts_with("for ") && mentions(t.split(" in ").next().unwrap_or("")) {
                return None;
            }
            for m in [".append(", ".extend(", ".insert(", ".pop(", ".remove(", ".clear(", ".update(", ".setdefault(", ".popitem(", ".add(", ".discard("] {
                if t.contains(&format!("{n}{m}")) {
                    return None;
                }
            }
            if t.starts_with(&format!("def {n}(")) {
                return None;
            }
        }
    }
    let load = if names.is_empty() { String::new() } else { format!("load(\"a.star\", {})\n", names.iter().map(|n| format!("\"{n}\"")).collect::<Vec<_>>().join(", ")) };
    let b_out = sl::run_src("b.star", &format!("{load}{b_body}"), &cfg, &[("a.star", &fm)]);
    let mut o = obs_of(&b_out);
    // A def of A that mutates one of its own default values (or a global of A) works while A is unfrozen and fails once A
    // is frozen: documented freeze semantics (C04), not an optimisation. Such a split is not comparable.
    if o.msg.contains("Immutable") || o.msg.contains("frozen") {
        return None;
    }
    let mut tx = a_out.tx.clone();
    tx.extend(o.tx);
    o.tx = tx;
    Some(o)
}


// ---- enumerated inlining table -------------------------------------------------------------------------------
// Every signature over <= 2 named parameters (each positional-only / positional-or-keyword / keyword-only, with or
// without a default, optionally *args and **kwargs) x every optimiser-shaped body x a table of call shapes (0..3
// positional, named subsets, a foreign name, *seq, **map). The defs live in a frozen module; each call is issued twice
// in the loading module, once naming the callee (the optimiser sees a frozen def and may inline it) and once through
// opaque(callee): the two must give the same ("ok", value) or ("err", kind).

const INLINE_BODIES: &[&str] = &[
    "return type(P0) == \"int\"",
    "return type(P0) == \"string\"",
    "return P0",
    "return (PALL,)",
    "return [PL, 7]",
    "return P0 + 1",
    "return PL if P0 else 0",
    "pass",
    "return \"%s|%s\" % (P0, PL)",
    "return {\"k\": P0}",
    "return P0[0]",
    "return len(P0)",
    "return P0 == PL",
    "return not P0",
];

fn inline_signatures() -> Vec<(String, Vec<String>)> {
    // kinds: 0 = positional-only, 1 = positional-or-keyword, 2 = keyword-only
    let mut out = Vec::new();
    for np in 1..=2usize {
        let nk = 3usize.pow(np as u32);
        for kinds_code in 0..nk {
            let kinds: Vec<usize> = (0..np).map(|i| (kinds_code / 3usize.pow(i as u32)) % 3).collect();
            if kinds.windows(2).any(|w| w[0] > w[1]) {
                continue; // kinds must be non-decreasing: pos-only, then normal, then kw-only
            }
            for defaults in 0..(1 << np) {
                for extra in 0..4 {
                    let (star_args, kwargs) = (extra & 1 == 1, extra & 2 == 2);
                    let names: Vec<String> = (0..np).map(|i| format!("p{i}")).collect();
                    let mut sig: Vec<String> = Vec::new();
                    let mut seen_default_positional = false;
                    let mut ok = true;
                    let mut star_written = false;
                    for i in 0..np {
                        if kinds[i] == 2 && !star_written {
                            sig.push(if star_args { "*rest".to_owned() } else { "*".to_owned() });
                            star_written = true;
                        }
                        let has_default = defaults >> i & 1 == 1;
                        if kinds[i] < 2 {
                            if has_default {
                                seen_default_positional = true;
                            } else if seen_default_positional {
                                ok = false;
                            }
                        }
                        sig.push(if has_default { format!("p{i} = {}", 100 + i) } else { format!("p{i}") });
                        if kinds[i] == 0 && (i + 1 == np || kinds[i + 1] != 0) {
                            sig.push("/".to_owned());
                        }
                    }
                    if !ok {
                        continue;
                    }
                    if star_args && !star_written {
                        sig.push("*rest".to_owned());
                    }
                    if kwargs {
                        sig.push("**kw".to_owned());
                    }
                    out.push((sig.join(", "), names));
                }
            }
        }
    }
    out
}

fn inline_calls(names: &[String]) -> Vec<String> {
    let mut out = Vec::new();
    for npos in 0..=3usize {
        let pos: Vec<String> = (0..npos).map(|i| format!("{}", 1 + i)).collect();
        for named_mask in 0..(1u32 << names.len()) {
            let mut args = pos.clone();
            for (i, n) in names.iter().enumerate() {
                if named_mask >> i & 1 == 1 {
                    args.push(format!("{n} = {}", 11 + i));
                }
            }
            out.push(args.join(", "));
            if npos <= 1 {
                let mut a2 = args.clone();
                a2.push("zz = 55".to_owned());
                out.push(a2.join(", "));
                let mut a3 = args.clone();
                a3.push("*[21, 22]".to_owned());
                out.push(a3.join(", "));
                let mut a4 = args.clone();
                a4.push(format!("**{{\"{}\": 31}}", names.last().unwrap()));
                out.push(a4.join(", "));
            }
        }
    }
    out.push("\"s\"".to_owned());
    out.push("[5]".to_owned());
    out.push("None".to_owned());
    out
}

fn check_inline_signature(sig: &str, names: &[String]) -> CaseResult {
    let p0 = names[0].clone();
    let pl = names.last().unwrap().clone();
    let pall = names.join(", ");
    let mut a = String::new();
    for (bi, b) in INLINE_BODIES.iter().enumerate() {
        let body = b.replace("PALL", &pall).replace("P0", &p0).replace("PL", &pl);
        a.push_str(&format!("def f{bi}({sig}):\n    {body}\n"));
    }
    let calls = inline_calls(names);
    let fnames: Vec<String> = (0..INLINE_BODIES.len()).map(|i| format!("\"f{i}\"")).collect();
    let mut b = format!("load(\"a.star\", {})\n", fnames.join(", "));
    for bi in 0..INLINE_BODIES.len() {
        for c in &calls {
            b.push_str(&format!("emit(catch(lambda: f{bi}({c})))\nemit(catch(lambda: opaque(f{bi})({c})))\n"));
        }
    }
    let mut r = CaseResult::new(format!("[inlining table] def f({sig}) x {} bodies x {} calls", INLINE_BODIES.len(), calls.len()));
    let cfg = sl::RunCfg::default();
    let (a_out, fm) = sl::run_and_freeze("a.star", &a, &cfg, &[]);
    let Some(fm) = fm else {
        r.fail("generator-bug", format!("inlining table: defining module failed: {:?}\n{a}", a_out.result.err().map(|e| e.msg)));
        return r;
    };
    let out = sl::run_src("b.star", &b, &cfg, &[("a.star", &fm)]);
    if let Err(e) = &out.result {
        r.fail("generator-bug", format!("inlining table: calling module failed: {}\n{b}", e.msg));
        return r;
    }
    r.evals = out.tx.len() as u64;
    let mut k = 0;
    for bi in 0..INLINE_BODIES.len() {
        for c in &calls {
            let (vis, hid) = (out.tx.get(k), out.tx.get(k + 1));
            k += 2;
            if vis != hid {
                r.fail("opt-transcript", format!("def f({sig}): {} called as f({c}) from a module that loaded the frozen def gives {:?}; through opaque(f) it gives {:?}", INLINE_BODIES[bi], vis, hid));
            }
            r.nontrivial.push(fnv(format!("{sig}|{bi}|{c}").as_bytes()));
        }
    }
    r
}

/// Second enumerated table: call sites inside defs. The optimiser inlines a call only when every argument is a constant
/// or a definitely assigned local, which it approximates from the CALLER's signature; so the caller's signature (markers
/// `*`, `/`, defaults, *args, **kwargs), the kind of argument (parameter, assigned local, conditionally assigned local,
/// constant) and the path taken are enumerated against every optimiser-shaped callee body, visible vs hidden callee.
fn check_caller_contexts(caller_sig: &str) -> CaseResult {
    let mut a = String::new();
    for (bi, b) in INLINE_BODIES.iter().enumerate() {
        let body = b.replace("PALL", "p0").replace("P0", "p0").replace("PL", "p0");
        a.push_str(&format!("def f{bi}(p0):\n    {body}\n"));
        // a callee that does something observable before it reads its parameter
        a.push_str(&format!("def g{bi}(p0):\n    return [emit(\"in-callee\"), {}]\n", body.strip_prefix("return ").unwrap_or("None")));
    }
    let fnames: Vec<String> = (0..INLINE_BODIES.len()).flat_map(|i| [format!("\"f{i}\""), format!("\"g{i}\"")]).collect();
    let mut b = format!("load(\"a.star\", {})\n", fnames.join(", "));
    let has_e = caller_sig.contains("e = ");
    let mut arg_kinds: Vec<(&str, &str)> = vec![("cond-local", "y"), ("assigned-local", "z"), ("param", "flag"), ("const", "5"), ("second-cond-local", "w")];
    if has_e {
        arg_kinds.push(("default-param", "e"));
    }
    let mut calls: Vec<String> = Vec::new();
    let mut ci = 0;
    for bi in 0..INLINE_BODIES.len() {
        for callee_prefix in ["f", "g"] {
            for (_, arg) in &arg_kinds {
                for hidden in [false, true] {
                    let callee = if hidden { format!("opaque({callee_prefix}{bi})") } else { format!("{callee_prefix}{bi}") };
                    b.push_str(&format!("def c{ci}({caller_sig}):\n    if flag:\n        y = 1\n        w = 2\n    z = flag\n    return {callee}({arg})\n"));
                    calls.push(format!("c{ci}"));
                    ci += 1;
                }
            }
        }
    }
    for c in &calls {
        b.push_str(&format!("emit(catch(lambda: {c}(False)))\nemit(catch(lambda: {c}(True)))\nemit(\"--\")\n"));
    }
    let mut r = CaseResult::new(format!("[caller-context table] def c({caller_sig}) calling f(arg) for {} bodies x {} argument kinds", INLINE_BODIES.len(), arg_kinds.len()));
    let cfg = sl::RunCfg::default();
    let (a_out, fm) = sl::run_and_freeze("a.star", &a, &cfg, &[]);
    let Some(fm) = fm else {
        r.fail("generator-bug", format!("caller-context table: defining module failed: {:?}\n{a}", a_out.result.err().map(|e| e.msg)));
        return r;
    };
    let out = sl::run_src("b.star", &b, &cfg, &[("a.star", &fm)]);
    if let Err(e) = &out.result {
        r.fail("generator-bug", format!("caller-context table: calling module failed: {}\n{}", e.msg, truncate(&b, 1500)));
        return r;
    }
    // transcript: per caller a group of records ended by "--"; callers come in (visible, hidden) pairs
    let groups: Vec<Vec<String>> = out.tx.split(|t| t == "\"--\"").map(|g| g.to_vec()).collect();
    r.evals = out.tx.len() as u64;
    let mut gi = 0;
    for bi in 0..INLINE_BODIES.len() {
        for callee_prefix in ["f", "g"] {
            for (kind, arg) in &arg_kinds {
                let (vis, hid) = (groups.get(gi), groups.get(gi + 1));
                gi += 2;
                if vis != hid {
                    r.fail("opt-transcript", format!("def c({caller_sig}) with `if flag: y = 1; w = 2` / `z = flag`, calling the loaded frozen def {callee_prefix}(p0): {} with argument `{arg}` ({kind}): c(False), c(True) give {:?}; with the callee behind opaque() they give {:?}", INLINE_BODIES[bi], vis, hid));
                }
                r.nontrivial.push(fnv(format!("{caller_sig}|{bi}|{callee_prefix}|{arg}").as_bytes()));
            }
        }
    }
    r
}

const CALLER_SIGS: &[&str] = &["flag", "flag, *, e = 1", "flag, /", "flag, /, e = 1", "flag, /, *, e = 1", "flag, e = 1, *rest", "flag, **kw", "flag, *, e = 1, **kw", "flag, *rest, e = 1", "flag, /, e = 1, *rest, **kw"];

// ---- closures crossing modules -----------------------------------------------------------------------------------
// Module A (frozen) exports factories whose closures refer to A's globals of every kind (constant, container, def,
// assigned after the factory, assigned twice) and to their own parameters / captured locals. Module B loads the
// factories, has globals of its own in generated order (so that slot numbers of A and B name different things), creates
// closures and keeps them in globals, containers, default arguments and captured variables, and observes calls of them.
// B is then frozen (which re-optimises every def it holds); module C loads B's exports and issues the same calls, and
// the host calls them through eval_function. Oracle: the three transcripts are equal.

struct ClosureCase {
    a: String,
    b_defs: String,
    calls: Vec<String>,
    exports: Vec<String>,
}

fn gen_closure_case(ch: &mut Choices) -> ClosureCase {
    let mut a = String::new();
    let mut a_globals: Vec<String> = Vec::new(); // expressions usable inside closures of A
    let na = 2 + ch.idx(5);
    for i in 0..na {
        match ch.below(6) {
            0 => {
                a.push_str(&format!("ga{i} = {}\n", 100 + i));
                a_globals.push(format!("ga{i}"));
            }
            1 => {
                a.push_str(&format!("ga{i} = [\"a-list-{i}\"]\n"));
                a_globals.push(format!("ga{i}"));
            }
            2 => {
                a.push_str(&format!("ga{i} = {{\"a-key\": {i}}}\n"));
                a_globals.push(format!("ga{i}"));
            }
            3 => {
                a.push_str(&format!("def ha{i}(x):\n    return (\"ha{i}\", x)\n"));
                a_globals.push(format!("ha{i}(q)"));
            }
            4 => {
                a.push_str(&format!("ga{i} = \"first\"\nga{i} = \"a-reassigned-{i}\"\n"));
                a_globals.push(format!("ga{i}"));
            }
            _ => {
                a.push_str(&format!("ga{i} = struct(f = \"a-struct-{i}\")\n"));
                a_globals.push(format!("ga{i}.f"));
            }
        }
    }
    // a global assigned after the factories
    let late = ch.bool();
    if late {
        a_globals.push("ga_late".to_owned());
    }
    let nf = 1 + ch.idx(3);
    let mut factories = Vec::new();
    for i in 0..nf {
        let nrefs = 1 + ch.idx(3);
        let refs: Vec<String> = (0..nrefs).map(|_| a_globals[ch.idx(a_globals.len())].clone()).collect();
        let body = format!("(p, q, {})", refs.join(", "));
        match ch.below(4) {
            0 => a.push_str(&format!("def mk{i}(p):\n    def inner(q):\n        return {body}\n    return inner\n")),
            1 => a.push_str(&format!("def mk{i}(p):\n    return lambda q: {body}\n")),
            // (a closure that mutates a captured container legitimately stops working once its module is frozen: not generated)
            2 => a.push_str(&format!("def mk{i}(p):\n    box = [p, \"captured\"]\n    def inner(q):\n        return (len(box), box[0], {body})\n    return inner\n")),
            _ => a.push_str(&format!("def mk{i}(p):\n    def outer(q):\n        def innermost(r):\n            return (r, {body})\n        return innermost(q)\n    return outer\n")),
        }
        factories.push(format!("mk{i}"));
    }
    if late {
        a.push_str("ga_late = \"a-late\"\n");
    }
    // module B
    let mut b = format!("load(\"a.star\", {})\n", factories.iter().map(|f| format!("\"{f}\"")).collect::<Vec<_>>().join(", "));
    let mut exports = Vec::new();
    let mut calls = Vec::new();
    let nb = 1 + ch.idx(6);
    let mut k = 0;
    for i in 0..nb {
        // B's own globals, interleaved: they take the slot numbers A's globals have in A
        match ch.below(4) {
            0 => b.push_str(&format!("gb{i} = \"b-value-{i}\"\n")),
            1 => b.push_str(&format!("def hb{i}(x):\n    return (\"hb{i}-of-B\", x)\n")),
            2 => b.push_str(&format!("gb{i} = [\"b-list-{i}\"]\n")),
            _ => {}
        }
        let f = factories[ch.idx(factories.len())].clone();
        let arg = 10 + i;
        match ch.below(5) {
            0 => {
                b.push_str(&format!("c{k} = {f}({arg})\n"));
                exports.push(format!("c{k}"));
                calls.push(format!("c{k}({})", 1 + i));
            }
            1 => {
                b.push_str(&format!("c{k} = {{\"k\": {f}({arg}), \"l\": [{f}(\"s\")]}}\n"));
                exports.push(format!("c{k}"));
                calls.push(format!("c{k}[\"k\"]({})", 1 + i));
                calls.push(format!("c{k}[\"l\"][0]({})", 2 + i));
            }
            2 => {
                b.push_str(&format!("def c{k}(q, f = {f}({arg})):\n    return f(q)\n"));
                exports.push(format!("c{k}"));
                calls.push(format!("c{k}({})", 1 + i));
            }
            3 => {
                b.push_str(&format!("def _mkb{k}():\n    g = {f}({arg})\n    return lambda q: (\"via-B\", g(q))\nc{k} = _mkb{k}()\n"));
                exports.push(format!("c{k}"));
                calls.push(format!("c{k}({})", 1 + i));
            }
            _ => {
                b.push_str(&format!("c{k} = struct(fn = {f}({arg}), tag = \"b-struct\")\n"));
                exports.push(format!("c{k}"));
                calls.push(format!("c{k}.fn({})", 1 + i));
            }
        }
        k += 1;
    }
    ClosureCase { a, b_defs: b, calls, exports }
}

fn check_closure_case(c: &ClosureCase) -> CaseResult {
    let cfg = sl::RunCfg::default();
    let call_lines: String = c.calls.iter().map(|x| format!("emit({x})\n")).collect();
    let b_src = format!("{}{}", c.b_defs, call_lines);
    let c_src = format!("load(\"b.star\", {})\n{}", c.exports.iter().map(|e| format!("\"{e}\"")).collect::<Vec<_>>().join(", "), call_lines);
    let mut r = CaseResult::new(format!("[closures crossing modules]\n# --- a.star\n{}# --- b.star\n{}# --- c.star\n{}", c.a, b_src, c_src));
    let (a_out, fa) = sl::run_and_freeze("a.star", &c.a, &cfg, &[]);
    let Some(fa) = fa else {
        r.fail("generator-bug", format!("a.star failed: {:?}", a_out.result.err().map(|e| e.msg)));
        return r;
    };
    let (b_out, fb) = sl::run_and_freeze("b.star", &b_src, &cfg, &[("a.star", &fa)]);
    let Some(fb) = fb else {
        r.fail("generator-bug", format!("b.star failed: {:?}", b_out.result.err().map(|e| e.msg)));
        return r;
    };
    r.evals = 3;
    let c_out = sl::run_src("c.star", &c_src, &cfg, &[("b.star", &fb)]);
    if let Err(e) = &c_out.result {
        r.fail("opt-outcome", format!("the calls succeed in the module that holds the closures, but fail after it is frozen and loaded: {}", e.msg));
    } else if c_out.tx != b_out.tx {
        let i = (0..c_out.tx.len().max(b_out.tx.len())).find(|i| c_out.tx.get(*i) != b_out.tx.get(*i)).unwrap_or(0);
        r.fail("opt-transcript", format!("call #{i} `{}` gives {:?} before its module is frozen and {:?} after freezing + load()", c.calls.get(i).cloned().unwrap_or_default(), b_out.tx.get(i), c_out.tx.get(i)));
    }
    // a second freeze/load round must not change anything either (stateful closures excluded: they count calls)
    r.nontrivial_self();
    r
}

fn def_only(plain: &str) -> String {
    let mut s = String::from("def main():\n");
    for l in plain.lines() {
        s.push_str("    ");
        s.push_str(l);
        s.push('\n');
    }
    s.push_str("    return None\n");
    s
}

impl Prop for C02 {
    fn id(&self) -> &'static str {
        "C02"
    }
    fn cases(&self, tier: Tier) -> u64 {
        match tier {
            Tier::Quick => 100_000,
            Tier::Thorough => 400_000,
        }
    }
    fn choice_len(&self, _tier: Tier) -> (usize, usize) {
        (30, 900)
    }
    fn rule(&self) -> String {
        "Case = program from the typed generator, profile full (shared core plus f-strings, %/.format/str/repr of any value, type()/isinstance()/len()/hasattr specialisation targets, structs, float division, constant conditions, tiny inlinable defs called with constant and non-constant arguments, ~30% with an injected failure, many of them on constants so that folding would raise). Variants, all required to give the same transcript, outcome and error message: (0) as written at module level; (1) a proptest-chosen subset of constants/callees wrapped in opaque(); (2) all of them wrapped; (3) wrapped in def main() and called in the defining module; (4) def main() frozen, loaded into another module and called; (5) = (4) with everything opaque; (6) frozen main called from the host (eval_function). evaluations = variant executions. Non-trivial = the program has >= 3 constants/callees that can be hidden, executed >= 5 emits, and contains a call, a tiny def, a constant condition, a format/%, or an injected failure; distinct = distinct program text.".into()
    }
    fn assumptions(&self) -> Vec<String> {
        vec![
            "opaque() is a harness native (identity, not speculative-exec safe) so the optimiser sees an unknown call".into(),
            "call-stack text is not compared (inlining legitimately changes frames); the message body is compared exactly".into(),
            "moving a module-level program into def main() is meaning-preserving for generated programs (checked against CPython by C01)".into(),
        ]
    }
    fn floors(&self) -> Vec<(&'static str, f64)> {
        vec![("runtime_failure", 0.10), ("call", 0.3), ("nontrivial", 0.5), ("two_modules", 0.3)]
    }
    fn has_exhaustive(&self) -> bool {
        true
    }
    /// Hand-written programs (optimiser targets and regressions of fixed findings): every subset of
    /// their hideable constants/callees is tried.
    fn exhaustive(&self, ctx: &mut Ctx, sink: &mut dyn FnMut(CaseResult)) {
        let mut idx = 0;
        for p in FIXED_PROGRAMS {
            let marked: String = p.chars().map(|c| match c { '⟦' => prog::C_OPEN, '⟧' => prog::C_CLOSE, '⟪' => prog::F_OPEN, '⟫' => prog::F_CLOSE, c => c }).collect();
            let (nc, nf) = prog::count_markers(&marked);
            let n = nc + nf;
            for mask in 0..(1u32 << n.min(10)) {
                idx += 1;
                if idx % ctx.workers != ctx.worker {
                    continue;
                }
                let picks: Vec<bool> = (0..n).map(|i| mask >> i & 1 == 1).collect();
                sink(check_program(&marked, &[], &picks, "[fixed program] ", mask.wrapping_mul(0x9E37_79B9)));
            }
        }
        for (i, (sig, names)) in inline_signatures().iter().enumerate() {
            if i % ctx.workers != ctx.worker {
                continue;
            }
            sink(check_inline_signature(sig, names));
        }
        for (i, sig) in CALLER_SIGS.iter().enumerate() {
            if (i + 3) % ctx.workers != ctx.worker {
                continue;
            }
            sink(check_caller_contexts(sig));
        }
    }
    fn render(&self, _ctx: &mut Ctx, ch: &mut Choices) -> String {
        let no_mutation = ch.bool();
        let opts = prog::Opts { profile: prog::Profile::Full, fail_pct: 30, no_mutation, inline_probes: true, ..Default::default() };
        let mut g = prog::Gen::new(ch, opts);
        prog::render_plain(&g.program())
    }
    fn run(&self, _ctx: &mut Ctx, ch: &mut Choices) -> CaseResult {
        if ch.chance(1, 5) {
            let c = gen_closure_case(ch);
            let mut r = check_closure_case(&c);
            r.label("closure_modules");
            r.label("call");
            r.label("nontrivial");
            r.label("two_modules");
            return r;
        }
        let no_mutation = ch.bool();
        let opts = prog::Opts { profile: prog::Profile::Full, fail_pct: 30, no_mutation, inline_probes: true, ..Default::default() };
        let mut g = prog::Gen::new(ch, opts);
        let marked = g.program();
        let labels = g.labels.clone();
        let (nc, nf) = prog::count_markers(&marked);
        // variant 1: random subset (choices decide per marker; 0 -> not wrapped)
        let picks: Vec<bool> = (0..(nc + nf)).map(|_| ch.bool()).collect();
        let cut = ch.raw();
        check_program(&marked, &labels, &picks, "", cut)
    }
}

const FIXED_PROGRAMS: &[&str] = &[
    // regression: slice folding with non-constant operands (fixed by 507619f)
    "emit(⟦\"hello\"⟧[⟦4⟧:⟦1⟧:⟦(-1)⟧])\nemit(⟦\"hello\"⟧[emit(⟦1⟧):emit(⟦4⟧):emit(⟦2⟧)])\nemit(⟦[1, 2, 3, 4, 5]⟧[⟦(-4)⟧:⟦(-4)⟧:⟦(-3)⟧])\nemit(⟦(1, 2, 3)⟧[⟦0⟧:⟦2⟧:⟦1⟧])\n",
    "emit(⟦\"abc\"⟧[⟦5⟧])\n",
    "emit(⟦1⟧ // ⟦0⟧)\n",
    "emit(⟦\"%d\"⟧ % ⟦\"x\"⟧)\n",
    "emit(⟦\"{}{}\"⟧.format(⟦1⟧))\n",
    "emit(⟪len⟫(⟦[1, 2]⟧) + ⟪len⟫(⟦\"é\"⟧))\nemit(⟪type⟫(⟦1⟧) == ⟦\"int\"⟧)\nemit(⟪isinstance⟫(⟦1⟧, int))\n",
    "def f(a, b):\n    return a + b\nemit(⟪f⟫(⟦1⟧, ⟦2⟧))\nemit(⟪f⟫(⟦\"a\"⟧, ⟦1⟧))\n",
    "x = ⟦[1, 2]⟧\nif ⟦True⟧:\n    x.append(⟦3⟧)\nelse:\n    x.append(⟦4⟧)\nemit(x)\nemit(x if ⟦False⟧ else ⟦0⟧)\n",
    "emit(⟦\"a,b\"⟧.split(⟦\",\"⟧))\nemit(⟦\"x\"⟧.upper() + ⟦\"{}\"⟧.format(⟦1⟧) + (⟦\"%s\"⟧ % ⟦2⟧))\nemit(⟦{\"a\": 1}⟧[⟦\"b\"⟧])\n",
    "emit(⟦[1, 2]⟧ + ⟦[3]⟧)\nemit(⟦(1,)⟧ * ⟦2⟧)\nemit(⟦1⟧ << ⟦(-1)⟧)\n",
];

fn check_program(marked: &str, labels: &[&'static str], picks: &[bool], prefix: &str, cut: u32) -> CaseResult {
    {
        let plain = prog::render_plain(marked);
        let (nc, nf) = prog::count_markers(marked);
        let partial = prog::render_opaque(marked, |i| picks.get(i).copied().unwrap_or(false), |i| picks.get(nc + i).copied().unwrap_or(false));
        let full = prog::render_opaque(marked, |_| true, |_| true);
        let mut r = CaseResult::new(format!("{prefix}{plain}"));
        for l in labels {
            r.label(l);
        }
        let base = run_module(&plain);
        if base.class == "limit" {
            r.label("skipped_limit");
            return r;
        }
        if base.class != "ok" {
            r.label("runtime_failure");
        }
        let variants: Vec<(&str, Obs, &str)> = vec![
            ("partially opaque, module level", run_module(&partial), &partial),
            ("fully opaque, module level", run_module(&full), &full),
            ("def main() called in the defining module", run_module(&prog::wrap_in_def(&plain)), &plain),
            ("def main() frozen, loaded and called", run_frozen(&def_only(&plain), false), &plain),
            ("fully opaque def main() frozen, loaded and called", run_frozen(&def_only(&full), false), &full),
            ("def main() frozen, called from the host", run_frozen(&def_only(&plain), true), &plain),
        ];
        let mut variants = variants;
        let split_plain = run_split(&plain, cut);
        let split_full = run_split(&full, cut);
        if let Some(o) = split_plain {
            r.label("two_modules");
            variants.push(("prefix in a frozen module, rest in a module that loads it", o, &plain));
        }
        if let Some(o) = split_full {
            variants.push(("fully opaque: prefix in a frozen module, rest in a module that loads it", o, &full));
        }
        // and at (up to three) boundaries right after a def that the next statement calls
        let def_cuts = cuts_after_defs(&plain);
        let pick_from = if def_cuts.len() > 3 { (cut as usize) % (def_cuts.len() - 2) } else { 0 };
        for c in def_cuts.iter().skip(pick_from).take(3) {
            if let Some(o) = run_split_at(&plain, *c) {
                r.label("split_after_def");
                variants.push(("defs in a frozen module, their call sites in a module that loads it", o, &plain));
            }
        }
        r.evals = 1 + variants.len() as u64;
        for (name, o, text) in &variants {
            if o.class == "limit" {
                r.label("skipped_limit");
                continue;
            }
            if o.class == "internal" || base.class == "internal" {
                r.fail("internal-error", format!("internal error in variant `{name}`: {}\n{text}", o.msg));
            } else if o.tx != base.tx {
                let i = (0..o.tx.len().max(base.tx.len())).find(|i| o.tx.get(*i) != base.tx.get(*i)).unwrap_or(0);
                r.fail(
                    "opt-transcript",
                    format!("variant `{name}` differs from the program as written at emit #{i}: {:?} vs {:?} (outcomes {} / {})\n--- as written\n{plain}\n--- variant\n{text}", o.tx.get(i), base.tx.get(i), o.class, base.class),
                );
            } else if o.class != base.class {
                r.fail("opt-outcome", format!("variant `{name}`: outcome {} vs {} as written\n--- as written\n{plain}\n--- variant\n{text}", o.class, base.class));
            } else if o.msg != base.msg {
                r.fail("opt-message", format!("variant `{name}`: error message {:?} vs {:?} as written\n--- as written\n{plain}\n--- variant\n{text}", o.msg, base.msg));
            }
        }
        let interesting = labels.iter().any(|l| matches!(*l, "call" | "tiny_def" | "const_if" | "format" | "injected_failure" | "full_form" | "compr"));
        if nc + nf >= 3 && base.tx.len() >= 5 && interesting {
            r.label("nontrivial");
            r.nontrivial_self();
        }
        r
    }
}
