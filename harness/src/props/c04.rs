//! C04 — freezing preserves every value and makes it permanently immutable.

use starlark::environment::Module;
use starlark::eval::Evaluator;

use crate::engine::*;
use crate::sl;

pub struct C04;

#[derive(Clone, Copy, Debug, PartialEq)]
enum Kind {
    List,
    Dict,
    Set,
    Tuple,
    Struct,
    Record,
}

/// Generated export: source expression and every reachable container as (path relative to the value, kind).
struct GenValue {
    src: String,
    paths: Vec<(String, Kind)>,
}

/// Hashable values that are not scalars: functions of every kind (plain def, closure over a local, lambda, native),
/// an enum value, and tuples of them. They are defined at the top of the module (see gen_case).
const OBJ_LEAVES: &[&str] = &["getcap", "getbox", "getlam", "len", "ENUMV", "withdefault", "(getbox, 1)", "(ENUMV, getlam)", "En", "Rec"];

fn leaf(ch: &mut Choices) -> String {
    if ch.chance(1, 6) {
        return (*ch.pick(OBJ_LEAVES)).to_owned();
    }
    match ch.below(5) {
        0 => format!("{}", ch.range(-3, 40)),
        1 => crate::prog::str_lit(ch.pick_s(&["a", "", "xy", "é"])),
        2 => "None".into(),
        3 => "True".into(),
        _ => format!("{}", (1i64 << 40) + ch.range(0, 5)),
    }
}

fn gen_value(ch: &mut Choices, depth: u32, path: &str, hashable_only: bool) -> GenValue {
    if depth >= 3 || ch.chance(1, 4) {
        return GenValue { src: leaf(ch), paths: vec![] };
    }
    let kinds: &[Kind] = if hashable_only { &[Kind::Tuple] } else { &[Kind::List, Kind::Dict, Kind::Set, Kind::Tuple, Kind::Struct, Kind::Record, Kind::List, Kind::Dict] };
    let kind = *ch.pick(kinds);
    let mut paths = vec![(path.to_owned(), kind)];
    let n = 1 + ch.idx(3);
    let src = match kind {
        Kind::List => {
            let mut items = Vec::new();
            for i in 0..n {
                let c = gen_value(ch, depth + 1, &format!("{path}[{i}]"), hashable_only);
                paths.extend(c.paths);
                items.push(c.src);
            }
            format!("[{}]", items.join(", "))
        }
        Kind::Tuple => {
            let mut items = Vec::new();
            for i in 0..n {
                let c = gen_value(ch, depth + 1, &format!("{path}[{i}]"), hashable_only);
                paths.extend(c.paths);
                items.push(c.src);
            }
            format!("({},)", items.join(", "))
        }
        Kind::Dict => {
            let mut items = Vec::new();
            let obj_base = ch.idx(OBJ_LEAVES.len());
            for i in 0..n {
                // keys: strings, ints, and (a quarter of the time) functions / enum values / tuples holding them
                let key = if ch.chance(1, 4) { OBJ_LEAVES[(obj_base + i) % OBJ_LEAVES.len()].to_owned() } else if ch.bool() { format!("\"k{i}\"") } else { format!("{}", i * 7) };
                let c = gen_value(ch, depth + 1, &format!("{path}[{key}]"), hashable_only);
                paths.extend(c.paths);
                items.push(format!("{key}: {}", c.src));
            }
            format!("{{{}}}", items.join(", "))
        }
        Kind::Set => {
            // elements must be hashable
            let mut items = Vec::new();
            for _ in 0..n {
                let c = gen_value(ch, depth + 2, "", true);
                items.push(c.src);
            }
            format!("set([{}])", items.join(", "))
        }
        Kind::Struct => {
            let mut items = Vec::new();
            for i in 0..n {
                let c = gen_value(ch, depth + 1, &format!("{path}.f{i}"), hashable_only);
                paths.extend(c.paths);
                items.push(format!("f{i} = {}", c.src));
            }
            format!("struct({})", items.join(", "))
        }
        Kind::Record => {
            let a = gen_value(ch, depth + 1, &format!("{path}.a"), hashable_only);
            let b = gen_value(ch, depth + 1, &format!("{path}.b"), hashable_only);
            paths.extend(a.paths);
            paths.extend(b.paths);
            format!("Rec(a = {}, b = {})", a.src, b.src)
        }
    };
    // paths inside tuples used as set elements are not addressable; filter empty paths
    GenValue { src, paths: paths.into_iter().filter(|p| !p.0.is_empty()).collect() }
}

fn mutations(kind: Kind) -> &'static [(&'static str, &'static str)] {
    match kind {
        Kind::List => &[
            ("append", "y.append(4)"),
            ("extend", "y.extend([4])"),
            ("insert", "y.insert(0, 4)"),
            ("pop", "y.pop()"),
            ("remove", "y.remove(y[0])"),
            ("clear", "y.clear()"),
            ("setitem", "y[0] = 9"),
            ("iadd", "y += [4]"),
            ("setitem_aug", "y[0] = [y[0]]"),
            // the argument is the container itself
            ("extend_self", "y.extend(y)"),
            ("iadd_self", "y += y"),
        ],
        Kind::Dict => &[
            ("setitem_new", "y[\"zz\"] = 40"),
            ("setitem_existing", "y[list(y.keys())[0]] = 99"),
            ("pop", "y.pop(list(y.keys())[0])"),
            ("popitem", "y.popitem()"),
            ("setdefault", "y.setdefault(\"zz\", 40)"),
            ("update", "y.update({\"zz\": 40})"),
            ("update_kw", "y.update(zz = 1)"),
            ("clear", "y.clear()"),
            ("ior", "y |= {\"zz\": 40}"),
            ("ior_self", "y |= y"),
            ("update_self", "y.update(y)"),
        ],
        Kind::Set => &[("add", "y.add(\"zz\")"), ("remove", "y.remove(list(y)[0])"), ("discard", "y.discard(list(y)[0])"), ("pop", "y.pop()"), ("clear", "y.clear()"), ("update", "y.update([\"zz\"])"), ("update_self", "y.update(y)")],
        Kind::Tuple => &[("setitem", "y[0] = 9")],
        Kind::Struct => &[("setattr", "y.f0 = 9"), ("setattr_new", "y.newfield = 1")],
        Kind::Record => &[("setattr", "y.a = 9")],
    }
}

struct Case {
    a_src: String,
    exports: Vec<(String, GenValue)>,
    accessors: Vec<(String, Kind)>,
}

fn gen_case(ch: &mut Choices) -> Case {
    let mut a = String::from("Rec = record(a = typing.Any, b = typing.Any)\nEn = enum(\"p\", \"q\")\n");
    // captured state, default arguments, closures, partial, enum, range (defined first: generated exports may hold them)
    a.push_str("_cap = [5, 6]\n_capd = {\"z\": [1]}\n_caps = set([1, 2])\n");
    a.push_str("def getcap():\n    return _cap\ndef getcapd():\n    return _capd\ndef getcaps():\n    return _caps\n");
    a.push_str("def withdefault(x = [7, 8], y = {\"d\": 1}):\n    return (x, y)\n");
    a.push_str("def _maker():\n    box = [1, [2]]\n    def get():\n        return box\n    return get\ngetbox = _maker()\n");
    a.push_str("getlam = lambda: _capd\nPART = partial(getcap)\nENUMV = En(\"q\")\nRNG = range(1, 9, 2)\n");
    let mut exports = Vec::new();
    let n = 1 + ch.idx(4);
    for i in 0..n {
        let name = format!("X{i}");
        let v = gen_value(ch, 0, &name, false);
        a.push_str(&format!("{name} = {}\n", v.src));
        exports.push((name, v));
    }
    let mut accessors: Vec<(String, Kind)> = Vec::new();
    // aliasing: a list holding the same export twice
    if ch.bool() && !exports.is_empty() {
        let (n0, v0) = &exports[0];
        if let Some((_, k)) = v0.paths.first() {
            a.push_str(&format!("ALIAS = [{n0}, {n0}, {{\"again\": {n0}}}]\n"));
            accessors.push(("ALIAS[1]".into(), *k));
            accessors.push(("ALIAS[2][\"again\"]".into(), *k));
        }
    }
    // cyclic structures
    if ch.bool() {
        a.push_str("CYC = [1, 2]\nCYC.append(CYC)\nCYCD = {\"n\": 1}\nCYCD[\"self\"] = CYCD\n");
        accessors.push(("CYC".into(), Kind::List));
        accessors.push(("CYC[2]".into(), Kind::List));
        accessors.push(("CYCD[\"self\"][\"self\"]".into(), Kind::Dict));
    }
    // a function that mutates its captured state when called: must fail after freezing
    a.push_str("def bump():\n    _cap.append(1)\n    return len(_cap)\n");
    for (e, k) in [
        ("getcap()", Kind::List),
        ("getcapd()", Kind::Dict),
        ("getcapd()[\"z\"]", Kind::List),
        ("getcaps()", Kind::Set),
        ("withdefault()[0]", Kind::List),
        ("withdefault()[1]", Kind::Dict),
        ("getbox()", Kind::List),
        ("getbox()[1]", Kind::List),
        ("getlam()", Kind::Dict),
        ("PART()", Kind::List),
    ] {
        accessors.push((e.to_owned(), k));
    }
    // read-only catalogue, defined in A so that B can also call the frozen version
    a.push_str(RO_DEF);
    Case { a_src: a, exports, accessors }
}

const RO_DEF: &str = r#"
def ro(v):
    t = type(v)
    out = [t, str(v), repr(v), bool(v)]
    if t in ["list", "tuple"]:
        out += [len(v), [e for e in v], v[:1], v[::-1] if len(v) < 9 else None, list(reversed(v)) if len(v) < 9 else None]
        if len(v) > 0:
            out += [v[0], v[-1], v[0] in v, v.index(v[0]) if t == "list" else None]
        out += [[e in v for e in v], [v.index(e) for e in v] if t == "list" else None]
    elif t == "dict":
        out += [len(v), list(v.keys()), list(v.values()), list(v.items()), v.get("nope", 7), "k0" in v, [k for k in v], dict(v) == v]
        # every key finds its own entry again (lookup by hash and equality)
        out += [[v[k] for k in v], [k in v for k in v], [v.get(k, "missing") for k in v], {k: 1 for k in v} == {k: 1 for k in list(v.keys())}]
    elif t == "set":
        out += [len(v), list(v), [e for e in v], 1 in v, list(v | set([99])), list(v & v)]
        out += [[e in v for e in v], set(list(v)) == v, len(set(list(v) + list(v)))]
    elif t == "struct":
        out += [dir(v), getattr(v, "f0", None), hasattr(v, "f0")]
    elif t == "record":
        out += [v.a, v.b]
    return out
def hashable(v):
    r = catch(lambda: {v: 1})
    return r[0]
"#;

fn b_module(case: &Case, idx: usize, attempts: &[(String, Kind)]) -> String {
    let mut names: Vec<String> = case.exports.iter().map(|e| e.0.clone()).collect();
    for n in ["getcap", "getcapd", "getcaps", "withdefault", "getbox", "getlam", "PART", "ENUMV", "RNG", "bump", "ro", "hashable", "Rec", "En"] {
        names.push(n.to_owned());
    }
    if case.a_src.contains("ALIAS = ") {
        names.push("ALIAS".into());
    }
    if case.a_src.contains("CYC = ") {
        names.push("CYC".into());
        names.push("CYCD".into());
    }
    let mut b = format!("load(\"a.star\", {})\n", names.iter().map(|n| format!("\"{n}\"")).collect::<Vec<_>>().join(", "));
    b.push_str(RO_DEF.replace("def ro(", "def ro_local(").replace("def hashable(", "def hashable_local(").as_str());
    b.push_str("RES = []\n");
    let mut mi = 0;
    for (path, kind) in attempts {
        for (mname, mbody) in mutations(*kind) {
            mi += 1;
            b.push_str(&format!("def m{mi}(y):\n    {mbody}\n"));
            // before/after snapshots are taken through str() of the whole path target
            b.push_str(&format!("RES.append(({}, {}, str({path}), catch(m{mi}, {path})[0], str({path})))\n", crate::prog::str_lit(path), crate::prog::str_lit(mname)));
        }
    }
    b.push_str("RES.append((\"bump\", \"call\", str(getcap()), catch(bump)[0], str(getcap())))\n");
    let _ = idx;
    b
}

fn snapshot_src(case: &Case) -> String {
    // evaluated in A before freezing and in B after: must give identical results
    let mut s = String::from("SNAP = []\n");
    let mut all: Vec<String> = case.exports.iter().map(|e| e.0.clone()).collect();
    all.extend(case.accessors.iter().map(|a| a.0.clone()));
    all.push("ENUMV".into());
    all.push("RNG".into());
    for e in &all {
        s.push_str(&format!("SNAP.append(({}, RO({e}), HASHABLE({e})))\n", crate::prog::str_lit(e)));
    }
    s
}

fn run_case(case: &Case, importers: usize, r: &mut CaseResult) {
    let cfg = sl::RunCfg::default();
    // --- module A: evaluate, snapshot in-module (before freeze), freeze
    let snap = snapshot_src(case);
    let a_full = format!("{}\n{}", case.a_src, snap.replace("RO(", "ro(").replace("HASHABLE(", "hashable("));
    let ast = match sl::parse("a.star", &a_full, &cfg.dialect) {
        Ok(a) => a,
        Err(e) => {
            r.fail("generator-bug", format!("parse: {e}\n{a_full}"));
            return;
        }
    };
    let mut before_rust: Vec<(String, String)> = Vec::new();
    let mut before_hash: Vec<(String, u32)> = Vec::new();
    let mut snap_before = String::new();
    let frozen = Module::with_temp_heap(|module| {
        {
            let mut eval = Evaluator::new(&module);
            sl::setup_eval(&mut eval, &cfg);
            if let Err(e) = eval.eval_module(ast, sl::globals()) {
                r.fail("generator-bug", format!("module A failed: {}\n{a_full}", e.without_diagnostic()));
                return None;
            }
        }
        for (n, _) in &case.exports {
            if let Some(v) = module.get(n) {
                before_rust.push((n.clone(), sl::encode(v)));
            }
        }
        // hash of every hashable module-level value (host API), to be compared after freezing
        for n in module.names().map(|n| n.as_str().to_owned()).collect::<Vec<_>>() {
            if let Some(v) = module.get(&n) {
                if let Ok(h) = v.get_hashed() {
                    before_hash.push((n, h.hash().get()));
                }
            }
        }
        snap_before = module.get("SNAP").map(sl::encode).unwrap_or_default();
        match module.freeze_named(starlark::values::FrozenHeapName::user("a.star")) {
            Ok(f) => Some(f),
            Err(e) => {
                r.fail("freeze-failed", format!("freeze failed: {e:?}\n{a_full}"));
                None
            }
        }
    });
    let Some(frozen) = frozen else { return };
    // --- host view after freeze
    for (n, enc_before) in &before_rust {
        r.evals += 1;
        match frozen.get_owned(n) {
            Ok(v) => {
                let enc_after = v.by_ref(|v| sl::encode(*v));
                if enc_after != *enc_before {
                    r.fail("freeze-changed-value", format!("export {n}: before freeze {} , after freeze {}\n{}", truncate(enc_before, 300), truncate(&enc_after, 300), case.a_src));
                }
            }
            Err(e) => r.fail("freeze-lost-value", format!("export {n} not available after freeze: {e}")),
        }
    }
    for (n, h_before) in &before_hash {
        if n.starts_with('_') || n == "SNAP" {
            continue;
        }
        r.evals += 1;
        if let Ok(v) = frozen.get_owned(n) {
            match v.by_ref(|v| v.get_hashed().map(|h| h.hash().get())) {
                Ok(h_after) => {
                    if h_after != *h_before {
                        r.fail("freeze-changed-hash", format!("{n}: Value::get_hashed() is {h_before:#x} before freezing and {h_after:#x} after\n{}", case.a_src));
                    }
                }
                Err(e) => r.fail("freeze-changed-hash", format!("{n}: hashable before freezing, not after: {e}")),
            }
        }
    }
    // --- importing modules, in order: snapshot through frozen and local read-only catalogue, then mutation attempts
    let mut attempts: Vec<(String, Kind)> = Vec::new();
    for (_, v) in &case.exports {
        attempts.extend(v.paths.iter().cloned());
    }
    attempts.extend(case.accessors.iter().cloned());
    for imp in 0..importers {
        let mut b = b_module(case, imp, &attempts);
        b.push_str(&snap.replace("SNAP", "SNAP_F").replace("RO(", "ro(").replace("HASHABLE(", "hashable("));
        b.push_str(&snap.replace("SNAP", "SNAP_L").replace("RO(", "ro_local(").replace("HASHABLE(", "hashable_local("));
        let mut res = String::new();
        let (mut sf, mut slc) = (String::new(), String::new());
        let out = sl::run_src_with("b.star", &b, &cfg, &[("a.star", &frozen)], |m, _| {
            res = m.get("RES").map(sl::encode).unwrap_or_default();
            sf = m.get("SNAP_F").map(sl::encode).unwrap_or_default();
            slc = m.get("SNAP_L").map(sl::encode).unwrap_or_default();
        });
        if let Err(e) = &out.result {
            r.fail("frozen-read-failed", format!("importing module #{imp} failed: {}\n--- A\n{}\n--- B\n{b}", e.msg, case.a_src));
            return;
        }
        for (name, s) in [("frozen ro()", &sf), ("importer-local ro()", &slc)] {
            r.evals += 1;
            if *s != snap_before {
                let a = crate::props::c10::split_top_level(&snap_before);
                let bb = crate::props::c10::split_top_level(s);
                let d = a.iter().zip(bb.iter()).find(|(x, y)| x != y);
                r.fail("freeze-changed-observation", format!("importer #{imp}, {name}: read-only observations differ from those before freezing: {:?}\n{}", d.map(|(x, y)| (truncate(x, 400), truncate(y, 400))), case.a_src));
            }
        }
        for item in crate::props::c10::split_top_level(&res) {
            r.evals += 1;
            let parts = crate::props::c10::split_top_level(&format!("[{}]", item.trim_start_matches('(').trim_end_matches(')').trim_end_matches(',')));
            if parts.len() != 5 {
                r.fail("generator-bug", format!("bad RES item {item}"));
                continue;
            }
            if parts[3] != "\"err\"" {
                r.fail("frozen-mutation-succeeded", format!("importer #{imp}: mutation `{}` through {} did not fail (outcome {}); value before {} after {}\n{}", parts[1], parts[0], parts[3], truncate(&parts[2], 200), truncate(&parts[4], 200), case.a_src));
            } else if parts[2] != parts[4] {
                r.fail("frozen-value-changed", format!("importer #{imp}: failed mutation `{}` through {} changed the value: {} -> {}\n{}", parts[1], parts[0], truncate(&parts[2], 200), truncate(&parts[4], 200), case.a_src));
            }
        }
    }
}

impl Prop for C04 {
    fn id(&self) -> &'static str {
        "C04"
    }
    fn cases(&self, tier: Tier) -> u64 {
        match tier {
            Tier::Quick => 30_000,
            Tier::Thorough => 300_000,
        }
    }
    fn choice_len(&self, _tier: Tier) -> (usize, usize) {
        (10, 300)
    }
    fn rule(&self) -> String {
        "Case = module exporting 1..4 generated nested values (list/dict/set/tuple/struct/record to depth 3 with scalar leaves incl. big ints and non-ASCII strings, and hashable object leaves - plain defs, closures over a local, lambdas, natives, enum values, record/enum types and tuples of them - also as dict keys and set elements), optionally aliased (same container reachable three ways) and cyclic (list and dict containing themselves), plus fixed exports with captured state: accessor defs, a lambda, a closure over a local, default-argument containers, partial(), an enum value, a range, and a def that mutates captured state. Oracle: (1) host encoding of every export via FrozenModule::get_owned equals the encoding before freeze, and Value::get_hashed() of every hashable module-level value is the same before and after; (2) a read-only catalogue (type/str/repr/bool/len/index/slice/reverse/iteration/in/keys/values/items/get/every key and element finding itself again/set operators/dir/getattr/hashability) evaluated in-module before freezing equals the same catalogue evaluated in 1..3 importing modules, both through the frozen function and a locally defined copy; (3) every mutation of the per-kind catalogue attempted through every path to every reachable container (and through the accessors) fails and leaves str(value) unchanged, in every importer in order; calling the mutating def fails. evaluations = individual comparisons. Non-trivial = some path has length >= 2, or aliasing/cycles are present; distinct = distinct defining module.".into()
    }
    fn floors(&self) -> Vec<(&'static str, f64)> {
        vec![("nested_path", 0.4), ("cyclic", 0.3), ("aliased", 0.2)]
    }
    fn render(&self, _ctx: &mut Ctx, ch: &mut Choices) -> String {
        let case = gen_case(ch);
        let importers = 1 + ch.idx(3);
        format!("[{importers} importer(s)]\n{}", case.a_src.replace(RO_DEF, "<read-only catalogue>\n"))
    }
    fn run(&self, _ctx: &mut Ctx, ch: &mut Choices) -> CaseResult {
        let case = gen_case(ch);
        let importers = 1 + ch.idx(3);
        let mut r = CaseResult::new(format!("[{importers} importer(s)]\n{}", case.a_src.replace(RO_DEF, "<read-only catalogue>\n")));
        r.evals = 0;
        let nested = case.exports.iter().any(|(_, v)| v.paths.iter().any(|p| p.0.matches(['[', '.']).count() >= 2));
        if nested {
            r.label("nested_path");
        }
        if case.a_src.contains("CYC = ") {
            r.label("cyclic");
        }
        if case.a_src.contains("ALIAS = ") {
            r.label("aliased");
        }
        for (_, v) in &case.exports {
            for (_, k) in &v.paths {
                r.label(match k {
                    Kind::List => "kind_list",
                    Kind::Dict => "kind_dict",
                    Kind::Set => "kind_set",
                    Kind::Tuple => "kind_tuple",
                    Kind::Struct => "kind_struct",
                    Kind::Record => "kind_record",
                });
            }
        }
        run_case(&case, importers, &mut r);
        if nested || case.a_src.contains("CYC = ") || case.a_src.contains("ALIAS = ") {
            r.nontrivial_self();
        }
        r.evals = r.evals.max(1);
        r
    }
}
