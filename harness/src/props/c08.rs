//! C08 — arguments bind to parameters exactly as the call rules say, on every call path.
//! Oracle: CPython performing the same def / call (bind op of the oracle worker).

use std::cell::RefCell;

use allocative::Allocative;
use serde_json::json;
use starlark::any::ProvidesStaticType;
use starlark::environment::Module;
use starlark::eval::Arguments;
use starlark::eval::Evaluator;
use starlark::eval::ParametersSpec;
use starlark::eval::ParametersSpecParam;
use starlark::starlark_simple_value;
use starlark::values::FrozenValue;
use starlark::values::NoSerialize;
use starlark::values::StarlarkValue;
use starlark::values::Value;
use starlark::values::list::ListRef;
use starlark::values::starlark_value;

use crate::engine::*;
use crate::props::c10::split_top_level;
use crate::sl;

pub struct C08;

#[derive(Clone, Debug, PartialEq)]
pub struct Sig {
    posonly: Vec<(String, Option<i32>)>,
    normal: Vec<(String, Option<i32>)>,
    /// None = neither, Some(true) = *args, Some(false) = bare *
    star: Option<bool>,
    kwonly: Vec<(String, Option<i32>)>,
    kwargs: bool,
}

impl Sig {
    fn param_list(&self) -> String {
        let mut parts: Vec<String> = Vec::new();
        let p = |(n, d): &(String, Option<i32>)| match d {
            Some(d) => format!("{n}={d}"),
            None => n.clone(),
        };
        for x in &self.posonly {
            parts.push(p(x));
        }
        if !self.posonly.is_empty() {
            parts.push("/".into());
        }
        for x in &self.normal {
            parts.push(p(x));
        }
        match self.star {
            Some(true) => parts.push("*args".into()),
            Some(false) => parts.push("*".into()),
            None => {}
        }
        for x in &self.kwonly {
            parts.push(p(x));
        }
        if self.kwargs {
            parts.push("**kw".into());
        }
        parts.join(", ")
    }
    fn names(&self) -> Vec<String> {
        let mut v: Vec<String> = self.posonly.iter().chain(self.normal.iter()).map(|x| x.0.clone()).collect();
        if self.star == Some(true) {
            v.push("args".into());
        }
        v.extend(self.kwonly.iter().map(|x| x.0.clone()));
        if self.kwargs {
            v.push("kw".into());
        }
        v
    }
    fn named_params(&self) -> Vec<String> {
        self.posonly.iter().chain(self.normal.iter()).chain(self.kwonly.iter()).map(|x| x.0.clone()).collect()
    }
    fn def_src(&self, fname: &str) -> String {
        let names = self.names();
        let ret = if names.is_empty() { "()".to_owned() } else { format!("({},)", names.join(", ")) };
        format!("def {fname}({}):\n    return {ret}\n", self.param_list())
    }
    fn spec(&self) -> ParametersSpec<FrozenValue> {
        let conv = |v: &Vec<(String, Option<i32>)>| -> Vec<(String, ParametersSpecParam<FrozenValue>)> {
            v.iter()
                .map(|(n, d)| {
                    (
                        n.clone(),
                        match d {
                            Some(d) => ParametersSpecParam::Defaulted(frozen_int(*d)),
                            None => ParametersSpecParam::Required,
                        },
                    )
                })
                .collect()
        };
        let (a, b, c) = (conv(&self.posonly), conv(&self.normal), conv(&self.kwonly));
        ParametersSpec::new_parts(
            "nat",
            a.iter().map(|(n, p)| (n.as_str(), *p)),
            b.iter().map(|(n, p)| (n.as_str(), *p)),
            self.star == Some(true),
            c.iter().map(|(n, p)| (n.as_str(), *p)),
            self.kwargs,
        )
    }
}

#[derive(Clone, Debug, PartialEq)]
pub struct Call {
    pos: Vec<i32>,
    named: Vec<(String, i32)>,
    /// None | Some(Ok(list)) | Some(Err(())) = non-iterable
    seq: Option<Result<Vec<i32>, ()>>,
    /// None | Some(Ok(pairs)) | Some(Err(())) = dict with a non-string key
    map: Option<Result<Vec<(String, i32)>, ()>>,
}

impl Call {
    fn args_src(&self) -> String {
        let mut parts: Vec<String> = self.pos.iter().map(|v| v.to_string()).collect();
        for (n, v) in &self.named {
            parts.push(format!("{n}={v}"));
        }
        match &self.seq {
            Some(Ok(xs)) => parts.push(format!("*[{}]", xs.iter().map(|x| x.to_string()).collect::<Vec<_>>().join(", "))),
            Some(Err(())) => parts.push("*NI".into()),
            None => {}
        }
        match &self.map {
            Some(Ok(kv)) => parts.push(format!("**{{{}}}", kv.iter().map(|(k, v)| format!("\"{k}\": {v}")).collect::<Vec<_>>().join(", "))),
            Some(Err(())) => parts.push("**{1: 5}".into()),
            None => {}
        }
        parts.join(", ")
    }
    fn kinds_used(&self) -> usize {
        (!self.pos.is_empty()) as usize + (!self.named.is_empty()) as usize + self.seq.is_some() as usize + self.map.is_some() as usize
    }
}

fn frozen_int(d: i32) -> FrozenValue {
    // small ints are stored inline in the pointer; the (leaked) heap only exists to satisfy the API
    thread_local! {
        static H: &'static starlark::values::FrozenHeap = Box::leak(Box::new(starlark::values::FrozenHeap::new()));
    }
    H.with(|h| h.alloc(d))
}

// ---- native path: a callable backed by a run-time built ParametersSpec -------------------------

thread_local! {
    static NAT_SPEC: RefCell<Option<(ParametersSpec<FrozenValue>, usize)>> = const { RefCell::new(None) };
}

#[derive(Debug, derive_more::Display, ProvidesStaticType, NoSerialize, Allocative)]
#[display("<nat>")]
struct NatFn;
starlark_simple_value!(NatFn);

#[starlark_value(type = "nat_fn")]
impl<'v> StarlarkValue<'v> for NatFn {
    fn invoke(&self, _me: Value<'v>, args: &Arguments<'v, '_>, eval: &mut Evaluator<'v, '_, '_>) -> starlark::Result<Value<'v>> {
        NAT_SPEC.with(|s| {
            let s = s.borrow();
            let (spec, n) = s.as_ref().expect("spec set");
            let mut slots: Vec<Option<Value<'v>>> = vec![None; *n];
            spec.collect(args, &mut slots, eval.heap())?;
            let vals: Vec<Value<'v>> = slots.into_iter().map(|v| v.unwrap_or_else(Value::new_none)).collect();
            Ok(eval.heap().alloc(starlark::values::tuple::AllocTuple(vals)))
        })
    }
}

// ---- enumeration -----------------------------------------------------------------------------------


// ---- natives declared through #[starlark_module] (the path almost every builtin uses) --------------------------
// Same signatures as seven of the enumerated Starlark defs; each returns the tuple of what its parameters received.
#[starlark::starlark_module]
pub fn c08_macro_natives(builder: &mut starlark::environment::GlobalsBuilder) {
    fn mac1<'v>(#[starlark(require = pos)] a: Value<'v>, #[starlark(require = pos)] b: Value<'v>, heap: starlark::values::Heap<'v>) -> anyhow::Result<Value<'v>> {
        Ok(heap.alloc((a, b)))
    }
    fn mac2<'v>(a: Value<'v>, #[starlark(default = 102)] b: i32, heap: starlark::values::Heap<'v>) -> anyhow::Result<Value<'v>> {
        Ok(heap.alloc((a, b)))
    }
    fn mac3<'v>(a: Value<'v>, #[starlark(require = named)] b: Value<'v>, #[starlark(require = named, default = 103)] c: i32, heap: starlark::values::Heap<'v>) -> anyhow::Result<Value<'v>> {
        Ok(heap.alloc((a, b, c)))
    }
    fn mac4<'v>(a: Value<'v>, #[starlark(args)] args: starlark::values::tuple::UnpackTuple<Value<'v>>, heap: starlark::values::Heap<'v>) -> anyhow::Result<Value<'v>> {
        let t = heap.alloc(starlark::values::tuple::AllocTuple(args.items.clone()));
        Ok(heap.alloc((a, t)))
    }
    fn mac5<'v>(#[starlark(default = 101)] a: i32, #[starlark(kwargs)] kw: starlark::values::dict::DictRef<'v>, heap: starlark::values::Heap<'v>) -> anyhow::Result<Value<'v>> {
        let d = heap.alloc(starlark::values::dict::AllocDict(kw.iter().collect::<Vec<_>>()));
        Ok(heap.alloc((a, d)))
    }
    fn mac6<'v>(
        a: Value<'v>,
        #[starlark(default = 102)] b: i32,
        #[starlark(args)] args: starlark::values::tuple::UnpackTuple<Value<'v>>,
        #[starlark(require = named, default = 103)] c: i32,
        #[starlark(kwargs)] kw: starlark::values::dict::DictRef<'v>,
        heap: starlark::values::Heap<'v>,
    ) -> anyhow::Result<Value<'v>> {
        let t = heap.alloc(starlark::values::tuple::AllocTuple(args.items.clone()));
        let d = heap.alloc(starlark::values::dict::AllocDict(kw.iter().collect::<Vec<_>>()));
        let (b, c) = (heap.alloc(b), heap.alloc(c));
        Ok(heap.alloc(starlark::values::tuple::AllocTuple(vec![a, b, t, c, d])))
    }
    fn mac7<'v>(#[starlark(require = pos)] a: Value<'v>, b: Value<'v>, #[starlark(require = named)] c: Value<'v>, heap: starlark::values::Heap<'v>) -> anyhow::Result<Value<'v>> {
        Ok(heap.alloc((a, b, c)))
    }
}

const MACRO_SIGS: &[(&str, &str)] = &[("a, b, /", "mac1"), ("a, b=102", "mac2"), ("a, *, b, c=103", "mac3"), ("a, *args", "mac4"), ("a=101, **kw", "mac5"), ("a, b=102, *args, c=103, **kw", "mac6"), ("a, /, b, *, c", "mac7")];

const NAMES: [&str; 5] = ["a", "b", "c", "d", "e"];

pub fn all_sigs(max_named: usize) -> Vec<Sig> {
    let mut out = Vec::new();
    for npo in 0..=2usize {
        for nn in 0..=3usize {
            for star in [None, Some(true), Some(false)] {
                for nk in 0..=2usize {
                    if star == Some(false) && nk == 0 {
                        continue;
                    }
                    if star.is_none() && nk > 0 {
                        continue;
                    }
                    if npo + nn + nk > max_named {
                        continue;
                    }
                    for kwargs in [false, true] {
                        let npos = npo + nn;
                        for ndef in 0..=npos {
                            for kmask in 0..(1u32 << nk) {
                                let mut names = NAMES.iter();
                                let mut i = 0;
                                let mut mk = |has_default: bool| {
                                    let n = names.next().unwrap().to_string();
                                    i += 1;
                                    (n, if has_default { Some(100 + i) } else { None })
                                };
                                let posonly: Vec<_> = (0..npo).map(|j| mk(j >= npos - ndef)).collect();
                                let normal: Vec<_> = (0..nn).map(|j| mk(npo + j >= npos - ndef)).collect();
                                let kwonly: Vec<_> = (0..nk).map(|j| mk(kmask >> j & 1 == 1)).collect();
                                out.push(Sig { posonly, normal, star, kwonly, kwargs });
                            }
                        }
                    }
                }
            }
        }
    }
    out
}

pub fn all_calls(sig: &Sig) -> Vec<Call> {
    let mut cand: Vec<String> = sig.named_params();
    cand.push("z".into());
    let mut named_sets: Vec<Vec<String>> = vec![vec![]];
    for i in 0..cand.len() {
        named_sets.push(vec![cand[i].clone()]);
        for j in 0..cand.len() {
            if i != j {
                named_sets.push(vec![cand[i].clone(), cand[j].clone()]);
            }
        }
    }
    let seqs: Vec<Option<Result<Vec<i32>, ()>>> = vec![None, Some(Ok(vec![])), Some(Ok(vec![21])), Some(Ok(vec![21, 22])), Some(Ok(vec![21, 22, 23])), Some(Err(()))];
    let mut maps: Vec<Option<Result<Vec<(String, i32)>, ()>>> = vec![None, Some(Ok(vec![])), Some(Err(()))];
    for c in &cand {
        maps.push(Some(Ok(vec![(c.clone(), 31)])));
    }
    if cand.len() >= 2 {
        maps.push(Some(Ok(vec![(cand[cand.len() - 1].clone(), 31), (cand[0].clone(), 32)])));
        maps.push(Some(Ok(vec![("y".into(), 31), ("z".into(), 32), (cand[0].clone(), 33)])));
    }
    let mut out = Vec::new();
    for npos in 0..=4usize {
        for ns in &named_sets {
            for seq in &seqs {
                for map in &maps {
                    out.push(Call { pos: (1..=npos as i32).collect(), named: ns.iter().enumerate().map(|(i, n)| (n.clone(), 11 + i as i32)).collect(), seq: seq.clone(), map: map.clone() });
                }
            }
        }
    }
    out
}

// ---- checking one signature against a list of calls ------------------------------------------------------

fn check_sig(ctx: &mut Ctx, sig: &Sig, calls: &[Call], r: &mut CaseResult) {
    if calls.is_empty() {
        return;
    }
    let arg_srcs: Vec<String> = calls.iter().map(|c| c.args_src()).collect();
    // Oracle
    let names = sig.names();
    let resp = ctx.oracle().request(&json!({"op": "bind", "sig": sig.param_list(), "params": names, "calls": arg_srcs}));
    if resp["defines"].as_bool() != Some(true) {
        r.fail("generator-bug", format!("python rejects signature ({}): {}", sig.param_list(), resp["msg"]));
        return;
    }
    let want: Vec<String> = resp["results"].as_array().map(|a| a.iter().map(|x| x.as_str().unwrap_or("").to_owned()).collect()).unwrap_or_default();
    // Module A
    let mut a = String::new();
    a.push_str("NI = 7\n");
    a.push_str(&sig.def_src("f"));
    a.push_str("def viavar(g):\n    return [\n");
    for s in &arg_srcs {
        a.push_str(&format!("        catch(lambda: g({s})),\n"));
    }
    a.push_str("    ]\n");
    a.push_str("direct = [\n");
    for s in &arg_srcs {
        a.push_str(&format!("    catch(lambda: f({s})),\n"));
    }
    a.push_str("]\nvia = viavar(f)\nnative = viavar(NAT)\n");
    let mac = MACRO_SIGS.iter().find(|(sg, _)| *sg == sig.param_list()).map(|x| x.1);
    if mac.is_some() {
        a.push_str(&format!("macro_native = viavar({})\n", mac.unwrap()));
    }
    // partial: first positional and first named argument bound early (only without **map)
    a.push_str("part = [\n");
    for c in calls {
        if c.map.is_none() && (!c.pos.is_empty() || !c.named.is_empty()) {
            let mut early: Vec<String> = Vec::new();
            let mut late = c.clone();
            if !late.pos.is_empty() {
                early.push(late.pos.remove(0).to_string());
            }
            if !late.named.is_empty() {
                let (n, v) = late.named.remove(0);
                early.push(format!("{n}={v}"));
            }
            a.push_str(&format!("    catch(lambda: partial(f, {})({})),\n", early.join(", "), late.args_src()));
        } else {
            a.push_str("    None,\n");
        }
    }
    a.push_str("]\n");
    let spec = sig.spec();
    NAT_SPEC.with(|s| *s.borrow_mut() = Some((sig.spec(), names.len())));
    let cfg = sl::RunCfg { max_ticks: 100_000_000, ..Default::default() };
    let mut lists: Vec<(&'static str, Vec<String>)> = Vec::new();
    let mut host: Vec<Option<String>> = vec![None; calls.len()];
    let ast = match sl::parse("a.star", &a, &cfg.dialect) {
        Ok(x) => x,
        Err(e) => {
            r.fail("signature-rejected", format!("starlark rejects the module for signature ({}): {e}", sig.param_list()));
            return;
        }
    };
    let frozen = Module::with_temp_heap(|module| {
        {
            let nat = module.heap().alloc(NatFn);
            module.set("NAT", nat);

            let mut eval = Evaluator::new(&module);
            sl::setup_eval(&mut eval, &cfg);
            if let Err(e) = eval.eval_module(ast, sl::globals()) {
                r.fail("signature-rejected", format!("module for signature ({}) failed: {}", sig.param_list(), e.without_diagnostic()));
                return None;
            }
            let mut list_names = vec!["direct", "via", "native", "part"];
            if mac.is_some() {
                list_names.push("macro_native");
                r.label("macro_native");
            }
            for name in list_names {
                let l = module.get(name).and_then(ListRef::from_value).map(|l| l.iter().map(sl::encode).collect::<Vec<_>>()).unwrap_or_default();
                lists.push((name, l));
            }
            // host path: positional + named only
            let f = module.get("f").unwrap();
            for (i, c) in calls.iter().enumerate() {
                if c.seq.is_none() && c.map.is_none() {
                    let heap = module.heap();
                    let pos: Vec<Value> = c.pos.iter().map(|v| heap.alloc(*v)).collect();
                    let named: Vec<(&str, Value)> = c.named.iter().map(|(n, v)| (n.as_str(), heap.alloc(*v))).collect();
                    host[i] = Some(match eval.eval_function(f, &pos, &named) {
                        Ok(v) => format!("(\"ok\",{},)", sl::encode(v)),
                        Err(_) => "(\"err\",".to_owned(),
                    });
                }
            }
        }
        module.freeze_named(starlark::values::FrozenHeapName::user("a.star")).ok()
    });
    let Some(frozen) = frozen else { return };
    // Module B: loaded frozen def
    let mut b = String::from("load(\"a.star\", \"f\", \"viavar\")\nNI = 7\nfrozen_direct = [\n");
    for s in &arg_srcs {
        b.push_str(&format!("    catch(lambda: f({s})),\n"));
    }
    b.push_str("]\nfrozen_via = viavar(f)\n");
    let out = sl::run_src_with("b.star", &b, &cfg, &[("a.star", &frozen)], |m, _| {
        for name in ["frozen_direct", "frozen_via"] {
            let l = m.get(name).and_then(ListRef::from_value).map(|l| l.iter().map(sl::encode).collect::<Vec<_>>()).unwrap_or_default();
            lists.push((name, l));
        }
    });
    if let Err(e) = out.result {
        r.fail("generator-bug", format!("module B failed: {}", e.msg));
        return;
    }
    for (i, c) in calls.iter().enumerate() {
        let w = &want[i];
        if w == "SYNTAX" {
            continue;
        }
        let expect_ok = format!("(\"ok\",{w},)");
        let agree = |got: &str| if w == "ERR" { got.starts_with("(\"err\",") } else { got == expect_ok };
        for (path, l) in &lists {
            let Some(g) = l.get(i) else {
                r.fail("generator-bug", format!("missing result {path}[{i}]"));
                continue;
            };
            if g == "N" {
                continue;
            }
            r.evals += 1;
            if !agree(g) {
                r.fail(
                    "binding-mismatch",
                    format!("def f({}) called as f({}) via path `{path}`: starlark {} , call rules say {}", sig.param_list(), arg_srcs[i], truncate(g, 200), if w == "ERR" { "error".to_owned() } else { expect_ok.clone() }),
                );
            }
        }
        if let Some(g) = &host[i] {
            r.evals += 1;
            if !agree(g) {
                r.fail("binding-mismatch", format!("def f({}) called from the host (eval_function) with ({}): starlark {} , call rules say {w}", sig.param_list(), arg_srcs[i], truncate(g, 200)));
            }
            // static predicate must agree with whether binding succeeds
            let names: Vec<&str> = c.named.iter().map(|x| x.0.as_str()).collect();
            let uniq = names.iter().collect::<std::collections::HashSet<_>>().len() == names.len();
            if uniq {
                let can = spec.can_fill_with_args(c.pos.len(), &names);
                r.evals += 1;
                if can != (w != "ERR") {
                    r.fail("can-fill-mismatch", format!("ParametersSpec({}).can_fill_with_args({}, {:?}) = {can} but the call rules say {w}", sig.param_list(), c.pos.len(), names));
                }
            }
        }
        if c.kinds_used() >= 2 || w == "ERR" {
            r.nontrivial.push(fnv(format!("{}|{}", sig.param_list(), arg_srcs[i]).as_bytes()));
        }
    }
}

const EXH_MAGIC: u32 = 0xEEEE_EE08;

impl Prop for C08 {
    fn id(&self) -> &'static str {
        "C08"
    }
    fn cases(&self, tier: Tier) -> u64 {
        match tier {
            Tier::Quick => 1_500,
            Tier::Thorough => 40_000,
        }
    }
    fn choice_len(&self, _tier: Tier) -> (usize, usize) {
        (10, 200)
    }
    fn rule(&self) -> String {
        "Enumerated part: every legal signature with up to 4 named parameters (positional-only, positional-or-keyword, defaults, *args, bare *, keyword-only with/without default, **kwargs) x call shapes (0..4 positional, named subsets of size <= 2 over the parameter names plus a foreign name, *seq of length 0..3 or a non-iterable, **map empty / one key per candidate name / two and three keys / non-string key); quick runs a fixed stride through the call list per signature, thorough all of it (and 5 parameters). Each (signature, call) runs through the call paths: direct call, via a variable inside a def, frozen-and-loaded def (direct and via variable), partial(), host eval_function (positional+named only), a native callable backed by a run-time ParametersSpec with the same signature, for seven signatures a native declared through #[starlark_module] (require = pos / named, default, args, kwargs), and ParametersSpec::can_fill_with_args. Oracle: CPython binding the same def/call text (bound tuple, *args as tuple, **kwargs as ordered dict, or failure). Random part: signatures with up to 8 parameters and random calls. Non-trivial = the call uses >= 2 of {positional, named, *, **} or must fail; distinct = distinct (signature, call).".into()
    }
    fn assumptions(&self) -> Vec<String> {
        vec![
            "Python's call rules are the reference for the shared def/call syntax; which error is raised is not compared".into(),
            "partial() is only exercised without **map, where functools-style semantics and a direct call coincide".into(),
        ]
    }
    fn has_exhaustive(&self) -> bool {
        true
    }
    fn exhaustive(&self, ctx: &mut Ctx, sink: &mut dyn FnMut(CaseResult)) {
        let sigs = all_sigs(if ctx.tier == Tier::Thorough { 5 } else { 4 });
        let stride = if ctx.tier == Tier::Thorough { 1 } else { 23 };
        for (i, sig) in sigs.iter().enumerate() {
            if i % ctx.workers != ctx.worker {
                continue;
            }
            let calls: Vec<Call> = all_calls(sig).into_iter().enumerate().filter(|(j, _)| (j + i) % stride == 0).map(|x| x.1).collect();
            for chunk in calls.chunks(400) {
                let mut r = CaseResult::new(format!("[enumerated] def f({}) x {} calls, e.g. f({})", sig.param_list(), chunk.len(), chunk[chunk.len() / 2].args_src()));
                r.evals = 0;
                r.replay = vec![EXH_MAGIC, i as u32];
                check_sig(ctx, sig, chunk, &mut r);
                sink(r);
            }
        }
    }
    fn run(&self, ctx: &mut Ctx, ch: &mut Choices) -> CaseResult {
        let first = ch.raw();
        if first == EXH_MAGIC {
            let sigs = all_sigs(4);
            let i = ch.raw() as usize % sigs.len();
            let calls = all_calls(&sigs[i]);
            let mut r = CaseResult::new(format!("[enumerated, all calls] def f({})", sigs[i].param_list()));
            r.evals = 0;
            for chunk in calls.chunks(400) {
                check_sig(ctx, &sigs[i], chunk, &mut r);
            }
            return r;
        }
        // random larger signature
        let mut names = ["a", "b", "c", "d", "e", "g", "h", "i"].iter();
        let mut i = 0;
        let mut mk = |d: bool| {
            i += 1;
            (names.next().unwrap().to_string(), if d { Some(100 + i) } else { None })
        };
        let npo = ch.idx(3);
        let nn = ch.idx(4);
        let star = *ch.pick(&[None, Some(true), Some(false)]);
        let nk = if star.is_none() { 0 } else if star == Some(false) { 1 + ch.idx(2) } else { ch.idx(3) };
        let npos = npo + nn;
        let ndef = ch.idx(npos + 1);
        let posonly: Vec<_> = (0..npo).map(|j| mk(j >= npos - ndef)).collect();
        let normal: Vec<_> = (0..nn).map(|j| mk(npo + j >= npos - ndef)).collect();
        let kwonly: Vec<_> = (0..nk).map(|_| mk(ch.bool())).collect();
        let sig = Sig { posonly, normal, star, kwonly, kwargs: ch.bool() };
        let mut cand = sig.named_params();
        cand.push("z".into());
        cand.push("y".into());
        let mut calls = Vec::new();
        for _ in 0..(10 + ch.idx(30)) {
            let npos = ch.idx(7);
            let nnamed = ch.idx(4);
            let mut named: Vec<(String, i32)> = Vec::new();
            for k in 0..nnamed {
                let n = cand[ch.idx(cand.len())].clone();
                if !named.iter().any(|x| x.0 == n) {
                    named.push((n, 11 + k as i32));
                }
            }
            let seq = match ch.below(4) {
                0 | 1 => None,
                2 => Some(Ok((0..ch.idx(4) as i32).map(|x| 21 + x).collect())),
                _ => {
                    if ch.chance(1, 4) {
                        Some(Err(()))
                    } else {
                        Some(Ok(vec![21]))
                    }
                }
            };
            let map = match ch.below(4) {
                0 | 1 => None,
                2 => {
                    let mut kv: Vec<(String, i32)> = Vec::new();
                    for k in 0..ch.idx(4) {
                        let n = cand[ch.idx(cand.len())].clone();
                        if !kv.iter().any(|x| x.0 == n) {
                            kv.push((n, 31 + k as i32));
                        }
                    }
                    Some(Ok(kv))
                }
                _ => {
                    if ch.chance(1, 4) {
                        Some(Err(()))
                    } else {
                        Some(Ok(vec![]))
                    }
                }
            };
            calls.push(Call { pos: (1..=npos as i32).collect(), named, seq, map });
        }
        let mut r = CaseResult::new(format!("def f({}) x {} random calls, e.g. f({})", sig.param_list(), calls.len(), calls[0].args_src()));
        r.evals = 0;
        check_sig(ctx, &sig, &calls, &mut r);
        r
    }
}
