//! C09 — equality, hashing and ordering are coherent (algebraic laws over representation classes).

use std::cmp::Ordering;

use num_bigint::BigInt;
use starlark::values::Value;
use starlark::values::list::ListRef;

use crate::engine::*;
use crate::props::c10::grid;
use crate::sl;

pub struct C09;

/// A generated value: Starlark source expression + class tags.
#[derive(Clone, Debug)]
struct GenVal {
    src: String,
    /// abstract-value family (values in the same family are candidates for equality)
    family: &'static str,
    /// representation class
    repr: &'static str,
}

fn int_lit(x: &BigInt) -> String {
    if x.sign() == num_bigint::Sign::Minus { format!("({x})") } else { format!("{x}") }
}

fn exactly_f64(x: &BigInt) -> Option<f64> {
    let f: f64 = x.to_string().parse().ok()?;
    if f.is_finite() && BigInt::from(f as i128) == *x && x.bits() <= 120 { Some(f) } else { None }
}

fn float_src(f: f64) -> String {
    if f.is_nan() {
        "float(\"nan\")".into()
    } else if f.is_infinite() {
        if f > 0.0 { "float(\"inf\")".into() } else { "float(\"-inf\")".into() }
    } else {
        format!("float(\"{f:e}\")")
    }
}

/// Representations of the abstract integer `n` (ints and, where exact, floats).
fn int_reprs(ch: &mut Choices, n: &BigInt, out: &mut Vec<GenVal>, count: usize) {
    for _ in 0..count {
        let (src, repr) = match ch.below(9) {
            0 => (int_lit(n), "int-literal"),
            1 => (format!("(opaque({}) + 1)", int_lit(&(n - 1))), "int-arith"),
            2 => (format!("int(\"{n}\")"), "int-from-str"),
            3 => (format!("(opaque({}) - opaque({}))", int_lit(&(n * 2)), int_lit(n)), "int-arith"),
            4 | 5 => match exactly_f64(n) {
                Some(f) => (float_src(f), "float-integral"),
                None => {
                    // nearest float: a different abstract value that must still obey the laws
                    let f: f64 = n.to_string().parse().unwrap_or(0.0);
                    (float_src(f), "float-nearest")
                }
            },
            6 => match exactly_f64(n) {
                Some(f) => (format!("int({})", float_src(f)), "int-from-float"),
                None => (int_lit(n), "int-literal"),
            },
            7 => (format!("(opaque({}) * 1)", int_lit(n)), "int-arith"),
            _ => (format!("(opaque({}) // 1)", int_lit(n)), "int-arith"),
        };
        out.push(GenVal { src, family: "number", repr });
    }
}

const STR_ABS: &[&str] = &["", "a", "ab", "abc", "hello world", "é", "名前x", "0", "12", "aa"];

fn str_reprs(ch: &mut Choices, s: &str, out: &mut Vec<GenVal>, count: usize) {
    let q = crate::prog::str_lit;
    let chars: Vec<char> = s.chars().collect();
    for _ in 0..count {
        let (src, repr) = match ch.below(8) {
            0 => (q(s), "str-literal"),
            1 => {
                let k = ch.idx(chars.len() + 1);
                let (a, b): (String, String) = (chars[..k].iter().collect(), chars[k..].iter().collect());
                (format!("(opaque({}) + {})", q(&a), q(&b)), "str-concat")
            }
            2 => (format!("opaque({})[1:]", q(&format!("x{s}"))), "str-slice"),
            3 => (format!("(\"%s\" % opaque({}))", q(s)), "str-percent"),
            4 => (format!("\"{{}}\".format(opaque({}))", q(s)), "str-format"),
            5 => {
                let parts: Vec<String> = chars.iter().map(|c| q(&c.to_string())).collect();
                (format!("\"\".join([{}])", parts.join(", ")), "str-join")
            }
            6 => (format!("opaque({}).replace(\"#\", \"\")", q(&format!("{s}#"))), "str-replace"),
            _ => {
                if !s.is_empty() && s.chars().all(|c| c.is_ascii_digit()) && !(s.len() > 1 && s.starts_with('0')) {
                    (format!("str({s})"), "str-of-int")
                } else {
                    (q(s), "str-literal")
                }
            }
        };
        out.push(GenVal { src, family: "string", repr });
    }
}

fn container_vals(ch: &mut Choices, out: &mut Vec<GenVal>) {
    let fams: &[(&str, &[(&str, &str)])] = &[
        ("tuple", &[("(1, \"a\")", "literal"), ("tuple([1, \"a\"])", "from-list"), ("((1,) + (\"a\",))", "concat"), ("(1, \"a\", 2)[:2]", "slice"), ("(1.0, \"a\")", "float-elem"), ("(1, \"b\")", "other")]),
        ("list", &[("[1, 2]", "literal"), ("[x for x in [1, 2]]", "comprehension"), ("list((1, 2))", "from-tuple"), ("([1] + [2])", "concat"), ("[1.0, 2]", "float-elem"), ("[2, 1]", "other"), ("[]", "empty"), ("list()", "empty2")]),
        ("dict", &[("{\"a\": 1, \"b\": 2}", "literal"), ("{\"b\": 2, \"a\": 1}", "other-order"), ("dict([(\"a\", 1), (\"b\", 2)])", "from-pairs"), ("{k: v for k, v in [(\"a\", 1), (\"b\", 2)]}", "comprehension"), ("{\"a\": 1}", "other"), ("{}", "empty")]),
        ("set", &[("set([1, 2])", "literal"), ("set([2, 1])", "other-order"), ("set([1, 2, 1])", "dups"), ("(set([1]) | set([2]))", "union"), ("set([1.0, 2])", "float-elem"), ("set()", "empty")]),
        ("struct", &[("struct(a = 1, b = \"x\")", "literal"), ("struct(b = \"x\", a = 1)", "other-order"), ("struct(**{\"a\": 1, \"b\": \"x\"})", "kwargs"), ("struct(a = 1.0, b = \"x\")", "float-field"), ("struct(a = 2, b = \"x\")", "other"), ("struct(a = [1])", "unhashable-field")]),
        ("record", &[("R1(a = 1, b = \"x\")", "literal"), ("R1(b = \"x\", a = 1)", "other-order"), ("R2(a = 1, b = \"x\")", "other-decl"), ("R1(a = 2, b = \"x\")", "other")]),
        ("enum", &[("E1(\"a\")", "call"), ("E1.values()[0]", "values"), ("E1(\"b\")", "other"), ("E2(\"a\")", "other-decl")]),
        ("range", &[("range(3)", "stop"), ("range(0, 3)", "start-stop"), ("range(0, 3, 1)", "step"), ("range(0, 4, 2)", "stride"), ("range(0, 3, 2)", "stride-equal-content"), ("range(0)", "empty"), ("range(5, 5)", "empty2")]),
        ("bool", &[("True", "literal"), ("(1 == 1)", "computed"), ("(not False)", "not"), ("False", "other"), ("bool(1)", "conv"), ("1", "int-one"), ("0", "int-zero"), ("None", "none")]),
        // values with a canonical static representation (empty tuple, empty and one-character strings) reached by
        // literal and by run-time construction
        ("empty-tuple", &[("()", "literal"), ("tuple([])", "from-list"), ("(opaque(()) + opaque(()))", "concat"), ("(1,)[1:]", "slice"), ("((1,) * 0)", "repeat"), ("tuple([x for x in []])", "comprehension"), ("tuple(opaque([]))", "from-opaque"), ("(opaque((1,))[1:] + opaque(()))", "slice-concat"), ("(1,)", "other")]),
        ("tiny-string", &[("\"\"", "literal"), ("\"a\"[1:]", "slice"), ("(opaque(\"\") + opaque(\"\"))", "concat"), ("\"\".join([])", "join"), ("(\"x\" * 0)", "repeat"), ("\"a\"", "one-literal"), ("\"ab\"[0]", "one-index"), ("chr(97)", "one-chr"), ("(opaque(\"\") + opaque(\"a\"))", "one-concat"), ("\"é\"", "one-nonascii"), ("\"éa\"[0]", "one-nonascii-index")]),
        ("nested", &[("((1, 2), \"a\")", "literal"), ("(tuple([1, 2]), \"a\")", "built"), ("((1, 2.0), \"a\")", "float-inside"), ("([1, 2], \"a\")", "list-inside"), ("((1, 2), \"a\", ())", "other")]),
    ];
    let (fam, reps) = fams[ch.idx(fams.len())];
    let n = 3 + ch.idx(4);
    for _ in 0..n {
        let (src, repr) = reps[ch.idx(reps.len())];
        out.push(GenVal { src: src.to_owned(), family: fam, repr });
    }
}

fn special_floats(ch: &mut Choices, out: &mut Vec<GenVal>) {
    let specials: &[(&str, &str)] = &[
        ("float(\"nan\")", "nan"),
        ("(float(\"inf\") - float(\"inf\"))", "nan-computed"),
        ("float(\"inf\")", "inf"),
        ("float(\"-inf\")", "-inf"),
        ("0.0", "zero"),
        ("-0.0", "neg-zero"),
        ("0", "int-zero"),
        ("(0.0 * -1)", "neg-zero-computed"),
        ("0.5", "half"),
        ("(1 / 2)", "half-computed"),
        ("1e308", "huge"),
        ("5e-324", "subnormal"),
    ];
    let n = 3 + ch.idx(4);
    for _ in 0..n {
        let (src, repr) = specials[ch.idx(specials.len())];
        out.push(GenVal { src: src.to_owned(), family: "number", repr });
    }
}

fn gen_vals(ch: &mut Choices) -> Vec<GenVal> {
    let mut out = Vec::new();
    let groups = 1 + ch.idx(3);
    for _ in 0..groups {
        match ch.weighted(&[6, 4, 4, 2]) {
            0 => {
                let g = grid();
                // two or three nearby abstract integers, several representations each
                let base = if ch.chance(3, 4) { g[ch.idx(g.len())].clone() } else { BigInt::from(ch.range(-5, 300)) };
                let k = 1 + ch.idx(3);
                for d in 0..k {
                    let n = &base + d as i32;
                    let c = 1 + ch.idx(3);
                    int_reprs(ch, &n, &mut out, c);
                }
            }
            1 => {
                let k = 1 + ch.idx(3);
                for _ in 0..k {
                    let s = *ch.pick(STR_ABS);
                    let c = 1 + ch.idx(3);
                    str_reprs(ch, s, &mut out, c);
                }
            }
            2 => container_vals(ch, &mut out),
            _ => special_floats(ch, &mut out),
        }
    }
    out.truncate(14);
    out
}

const LITS: &[&str] = &["()", "\"\"", "\"a\"", "\"é\"", "0", "1", "-1", "2147483648", "1.0", "0.0", "True", "False", "None", "(1, \"a\")", "\"abc\"", "(1,)"];

const PRELUDE: &str = r#"
R1 = record(a = int | float, b = str)
R2 = record(a = int | float, b = str)
E1 = enum("a", "b")
E2 = enum("a", "b")
FILL = [1000 + i for i in range(20)]
def facts(a, b):
    da = catch(lambda: {a: 1})
    if da[0] != "ok":
        return None
    d = da[1]
    g = catch(lambda: d.get(b))
    if g[0] != "ok":
        return "b-unhashable"
    both = {a: 0}
    both[b] = 1
    big = {k: -1 for k in FILL}
    big[a] = 1
    gb = big.get(b)
    big[b] = 2
    s = set([a])
    ins = b in s
    s.add(b)
    return (g[1], b in d, len(both), gb, len(big) - len(FILL), ins, len(s))
"#;

#[derive(Default)]
struct Laws {
    fails: Vec<(String, String)>,
    evals: u64,
}

fn classify_eq_fail(a: &GenVal, b: &GenVal) -> &'static str {
    // Signature for the int/float precision finding: one side float (or container holding one), other int, magnitude >= 2^53
    let _ = (a, b);
    "law"
}

fn check_laws(vals: &[GenVal], list: &[Value], facts: &dyn Fn(usize, usize) -> Option<String>, laws: &mut Laws) {
    let n = list.len();
    let mut eq = vec![vec![false; n]; n];
    let mut cmp: Vec<Vec<Option<Ordering>>> = vec![vec![None; n]; n];
    let mut hash: Vec<Option<u32>> = Vec::new();
    for v in list {
        hash.push(v.get_hashed().ok().map(|h| h.hash().get()));
    }
    for i in 0..n {
        for j in 0..n {
            laws.evals += 1;
            match list[i].equals(list[j]) {
                Ok(e) => eq[i][j] = e,
                Err(e) => laws.fails.push(("law".into(), format!("equals({}, {}) failed: {e}", vals[i].src, vals[j].src))),
            }
            cmp[i][j] = list[i].compare(list[j]).ok();
        }
    }
    let d = |i: usize| format!("{} [{}]", vals[i].src, vals[i].repr);
    for i in 0..n {
        if !eq[i][i] {
            laws.fails.push(("law".into(), format!("equality not reflexive: {}", d(i))));
        }
        for j in 0..n {
            if eq[i][j] != eq[j][i] {
                laws.fails.push(("law".into(), format!("equality not symmetric: {} vs {}", d(i), d(j))));
            }
            if eq[i][j] {
                // hash coherence on the Rust side
                match (hash[i], hash[j]) {
                    (Some(a), Some(b)) if a != b => laws.fails.push((classify_eq_fail(&vals[i], &vals[j]).into(), format!("equal values with different hashes: {} (hash {a:#x}) == {} (hash {b:#x})", d(i), d(j)))),
                    (Some(_), None) | (None, Some(_)) => laws.fails.push(("law".into(), format!("equal values, only one hashable: {} == {}", d(i), d(j)))),
                    _ => {}
                }
            }
            // ordering coherence
            match (cmp[i][j], cmp[j][i]) {
                (Some(a), Some(b)) => {
                    if a != b.reverse() {
                        laws.fails.push(("law".into(), format!("compare not antisymmetric: cmp({}, {}) = {a:?}, reverse = {b:?}", d(i), d(j))));
                    }
                    if (a == Ordering::Equal) != eq[i][j] {
                        laws.fails.push(("law".into(), format!("ordering disagrees with equality: cmp({}, {}) = {a:?} but == is {}", d(i), d(j), eq[i][j])));
                    }
                }
                (Some(_), None) | (None, Some(_)) => laws.fails.push(("law".into(), format!("compare defined in one direction only: {} vs {}", d(i), d(j)))),
                _ => {}
            }
            for k in 0..n {
                if eq[i][j] && eq[j][k] && !eq[i][k] {
                    laws.fails.push(("eq-transitivity".into(), format!("equality not transitive: {} == {} == {} but first != third", d(i), d(j), d(k))));
                }
                if cmp[i][j] == Some(Ordering::Less) && cmp[j][k] == Some(Ordering::Less) && cmp[i][k].is_some() && cmp[i][k] != Some(Ordering::Less) {
                    laws.fails.push(("law".into(), format!("ordering not transitive: {} < {} < {} but cmp(first, third) = {:?}", d(i), d(j), d(k), cmp[i][k])));
                }
            }
            // dict / set behaviour observed inside Starlark
            if let Some(f) = facts(i, j) {
                // f = encoding of (get, in, len_both, get_big, len_big_delta, in_set, len_set) | N | "b-unhashable"
                if f == "N" {
                    if eq[i][j] && hash[j].is_some() {
                        laws.fails.push(("law".into(), format!("{} unhashable as a key but equal to hashable {}", d(i), d(j))));
                    }
                } else if f.starts_with('"') {
                    if eq[i][j] {
                        laws.fails.push(("law".into(), format!("{} hashable as a key but equal {} is not", d(i), d(j))));
                    }
                } else {
                    let want = if eq[i][j] { "(1,T,1,1,1,T,1,)" } else { "(N,F,2,N,2,F,2,)" };
                    if f != want {
                        laws.fails.push((
                            "dict-set-lookup".into(),
                            format!("a = {}, b = {}: a == b is {}, but ({{a:1}}.get(b), b in {{a:1}}, len({{a:0,b:1}}), same above the index threshold (get, len), b in set([a]), len(set([a,b]))) = {f}, expected {want}", d(i), d(j), eq[i][j]),
                        ));
                    }
                }
            }
        }
    }
}

fn run_case(vals: &[GenVal], frozen: bool) -> (Laws, Vec<String>) {
    // Module A (optionally frozen and loaded) defines the values; module B computes facts.
    let mut a_src = String::from(PRELUDE);
    a_src.push_str("vals = [\n");
    for v in vals {
        a_src.push_str(&format!("    {},\n", v.src));
    }
    a_src.push_str("]\n");
    // comparisons against compile-time constants take specialised instructions: every value against every literal of LITS
    let lit_rows: String = LITS.iter().map(|l| format!("    [[v == {l}, {l} == v, v != {l}, v in [{l}], v in ({l},)] for v in vals],\n")).collect();
    let b_src = format!("F = [[facts(a, b) for b in vals] for a in vals]\nLITVALS = [{}]\nLITCMP = [\n{lit_rows}]\n", LITS.join(", "));
    let b_src = b_src.as_str();
    let cfg = sl::RunCfg::default();
    let mut laws = Laws::default();
    let mut notes = Vec::new();
    let check = |module: &starlark::environment::Module, laws: &mut Laws, notes: &mut Vec<String>| {
        let Some(vv) = module.get("vals") else {
            notes.push("no vals".into());
            return;
        };
        let Some(list) = ListRef::from_value(vv) else { return };
        let list: Vec<Value> = list.iter().collect();
        let fv = module.get("F");
        let rows: Vec<Vec<String>> = fv
            .and_then(ListRef::from_value)
            .map(|rows| rows.iter().map(|r| ListRef::from_value(r).map(|r| r.iter().map(sl::encode).collect()).unwrap_or_default()).collect())
            .unwrap_or_default();
        let facts = |i: usize, j: usize| rows.get(i).and_then(|r: &Vec<String>| r.get(j)).cloned();
        check_laws(vals, &list, &facts, laws);
        // literal comparisons: `v == <literal>` (both orders), `!=`, `in [literal]`, `in (literal,)` must agree with
        // Value::equals(v, value of the literal)
        let litvals: Vec<Value> = module.get("LITVALS").and_then(ListRef::from_value).map(|l| l.iter().collect()).unwrap_or_default();
        let litcmp: Vec<Vec<String>> = module
            .get("LITCMP")
            .and_then(ListRef::from_value)
            .map(|rows| rows.iter().map(|r| ListRef::from_value(r).map(|r| r.iter().map(sl::encode).collect()).unwrap_or_default()).collect())
            .unwrap_or_default();
        for (k, lv) in litvals.iter().enumerate() {
            for (i, v) in list.iter().enumerate() {
                laws.evals += 1;
                let Ok(e) = v.equals(*lv) else { continue };
                let want = if e { "[T,T,F,T,T]" } else { "[F,F,T,F,F]" };
                if let Some(got) = litcmp.get(k).and_then(|r| r.get(i)) {
                    if got != want {
                        laws.fails.push(("literal-comparison".into(), format!("v = {} [{}] against the literal {}: Value::equals says {e}, but [v == L, L == v, v != L, v in [L], v in (L,)] = {got}", vals[i].src, vals[i].repr, LITS[k])));
                    }
                }
            }
        }
    };
    if frozen {
        let (out, fm) = sl::run_and_freeze("a.star", &a_src, &cfg, &[]);
        match fm {
            None => notes.push(format!("module A failed: {:?}", out.result.err().map(|e| e.msg))),
            Some(fm) => {
                let src = format!("load(\"a.star\", \"vals\", \"facts\")\n{b_src}");
                let out = sl::run_src_with("b.star", &src, &cfg, &[("a.star", &fm)], |m, _| check(m, &mut laws, &mut notes));
                if let Err(e) = out.result {
                    notes.push(format!("module B failed: {}", e.msg));
                }
            }
        }
    } else {
        let src = format!("{a_src}{b_src}");
        let out = sl::run_src_with("ab.star", &src, &cfg, &[], |m, _| check(m, &mut laws, &mut notes));
        if let Err(e) = out.result {
            notes.push(format!("module failed: {}", e.msg));
        }
    }
    (laws, notes)
}

fn sorted_check(ch: &mut Choices, r: &mut CaseResult) {
    // sorted() returns a stably ordered permutation: elements are (key, tag) pairs sorted by key only.
    let n = ch.idx(12);
    let kind = ch.below(3);
    let mut keys: Vec<String> = Vec::new();
    for _ in 0..n {
        keys.push(match kind {
            0 => format!("{}", ch.range(-3, 3)),
            1 => {
                if ch.bool() {
                    format!("{}", ch.range(-2, 2))
                } else {
                    format!("{}.0", ch.range(-2, 2))
                }
            }
            _ => crate::prog::str_lit(ch.pick_s(&["a", "b", "", "ab", "é"])),
        });
    }
    let items: Vec<String> = keys.iter().enumerate().map(|(i, k)| format!("({k}, {i})")).collect();
    let rev = ch.bool();
    let src = format!(
        "xs = [{}]\nys = sorted(xs, key = lambda p: p[0], reverse = {})\nemit(ys)\nemit(sorted([p[0] for p in xs]))\n",
        items.join(", "),
        if rev { "True" } else { "False" }
    );
    let out = sl::run_src("sort.star", &src, &sl::RunCfg::default(), &[]);
    r.evals += 1;
    if out.result.is_err() || out.tx.len() != 2 {
        r.fail("law", format!("sorted() failed: {:?}\n{src}", out.result));
        return;
    }
    // Validate through Rust-side compare on the evaluated values: re-evaluate and inspect
    let ok = sl::run_src_with("sort2.star", &src, &sl::RunCfg::default(), &[], |m, _| {
        let (Some(xs), Some(ys)) = (m.get("xs").and_then(ListRef::from_value), m.get("ys").and_then(ListRef::from_value)) else { return };
        let xs: Vec<Value> = xs.iter().collect();
        let ys: Vec<Value> = ys.iter().collect();
        fn key<'v>(v: Value<'v>) -> Option<(Value<'v>, i32)> {
            starlark::values::tuple::TupleRef::from_value(v).map(|t| (t.content()[0], t.content()[1].unpack_i32().unwrap_or(-1)))
        }
        let mut problems = Vec::new();
        if xs.len() != ys.len() {
            problems.push("length changed".to_owned());
        }
        let mut tags: Vec<i32> = ys.iter().filter_map(|v| key(*v)).map(|k| k.1).collect();
        tags.sort();
        if tags != (0..xs.len() as i32).collect::<Vec<_>>() {
            problems.push("not a permutation".to_owned());
        }
        for w in ys.windows(2) {
            let (Some(a), Some(b)) = (key(w[0]), key(w[1])) else { continue };
            match a.0.compare(b.0) {
                Ok(o) => {
                    let o = if rev { o.reverse() } else { o };
                    if o == Ordering::Greater {
                        problems.push(format!("out of order: {} before {}", w[0].to_repr(), w[1].to_repr()));
                    }
                    // stability: equal keys keep input order (also with reverse=True, as in Python)
                    if o == Ordering::Equal && a.1 > b.1 {
                        problems.push(format!("unstable: {} before {}", w[0].to_repr(), w[1].to_repr()));
                    }
                }
                Err(e) => problems.push(format!("compare failed: {e}")),
            }
        }
        for p in problems {
            sl::tx_push(format!("PROBLEM {p}"));
        }
    });
    for t in ok.tx.iter().filter(|t| t.starts_with("PROBLEM")) {
        r.fail("law", format!("sorted(): {t}\n{src}"));
    }
    if n >= 4 {
        r.nontrivial.push(fnv(src.as_bytes()));
    }
}

impl Prop for C09 {
    fn id(&self) -> &'static str {
        "C09"
    }
    fn cases(&self, tier: Tier) -> u64 {
        match tier {
            Tier::Quick => 150_000,
            Tier::Thorough => 600_000,
        }
    }
    fn choice_len(&self, _tier: Tier) -> (usize, usize) {
        (20, 300)
    }
    fn rule(&self) -> String {
        "Case = up to 14 values built from representation classes of a few abstract values (ints on the boundary grid and neighbours via literal / arithmetic / int(str) / float->int, integral and nearest floats, NaN/inf/+-0.0/subnormal, strings via literal/concat/slice/%/format/join/replace/str(int), tuples, lists, dicts in different insertion orders, sets, structs, records and enums of distinct declarations, ranges, bools/None), evaluated unfrozen or frozen-and-loaded. Oracle: algebraic laws over every ordered pair and triple: == reflexive/symmetric/transitive; equal => both unhashable or equal Rust-side hashes and interchangeable as dict keys and set members (below and above the 16-entry index threshold, both insertion orders); compare antisymmetric, transitive and Equal exactly when ==; sorted(key=) is an ordered, stable permutation. evaluations = ordered pairs checked. Non-trivial = the case contains two values of different representation class in the same family; distinct = distinct value list.".into()
    }
    fn assumptions(&self) -> Vec<String> {
        vec!["NaN values compare equal to each other (Starlark spec, quoted in float.rs), so reflexivity applies to NaN too".into()]
    }
    fn floors(&self) -> Vec<(&'static str, f64)> {
        vec![("number_family", 0.25), ("string_family", 0.15), ("frozen", 0.2)]
    }
    fn has_exhaustive(&self) -> bool {
        true
    }
    /// Every ordered pair of the numeric grid (ints as literals, plus their exact or nearest floats).
    fn exhaustive(&self, ctx: &mut Ctx, sink: &mut dyn FnMut(CaseResult)) {
        let mut all: Vec<GenVal> = Vec::new();
        for n in grid() {
            all.push(GenVal { src: int_lit(&n), family: "number", repr: "int-literal" });
            let (f, repr) = match exactly_f64(&n) {
                Some(f) => (f, "float-integral"),
                None => (n.to_string().parse().unwrap_or(0.0), "float-nearest"),
            };
            all.push(GenVal { src: float_src(f), family: "number", repr });
        }
        for (s, r) in [("float(\"nan\")", "nan"), ("float(\"inf\")", "inf"), ("float(\"-inf\")", "-inf"), ("-0.0", "neg-zero"), ("0.5", "half"), ("2147483648.5", "half-big")] {
            all.push(GenVal { src: s.to_owned(), family: "number", repr: r });
        }
        let blocks: Vec<&[GenVal]> = all.chunks(7).collect();
        let mut idx = 0usize;
        for i in 0..blocks.len() {
            for j in i..blocks.len() {
                idx += 1;
                if idx % ctx.workers != ctx.worker {
                    continue;
                }
                let mut vals: Vec<GenVal> = blocks[i].to_vec();
                if j != i {
                    vals.extend(blocks[j].iter().cloned());
                }
                sink(self.check_vals(ctx, vals, idx % 3 == 0, "[enumerated numeric grid] "));
            }
        }
    }
    fn known_probe(&self, ctx: &mut Ctx, sig: &str) -> Option<(bool, String)> {
        if sig == "int-float-beyond-2-53" {
            let vals = vec![
                GenVal { src: "9007199254740993".into(), family: "number", repr: "int-literal" },
                GenVal { src: "9007199254740992.0".into(), family: "number", repr: "float-integral" },
                GenVal { src: "9007199254740992".into(), family: "number", repr: "int-literal" },
            ];
            let strict = Ctx { tier: ctx.tier, seed: ctx.seed, open: Default::default(), strict: true, worker: 0, workers: 1, oracle: None };
            let mut c2 = strict;
            let r = self.check_vals(&mut c2, vals, false, "");
            return Some((!r.fails.is_empty(), "9007199254740993 == 9007199254740992.0 == 9007199254740992 but 9007199254740993 != 9007199254740992".into()));
        }
        None
    }
    fn run(&self, ctx: &mut Ctx, ch: &mut Choices) -> CaseResult {
        let vals = gen_vals(ch);
        let frozen = ch.chance(1, 3);
        let mut r = self.check_vals(ctx, vals, frozen, "");
        if ch.chance(1, 4) {
            sorted_check(ch, &mut r);
        }
        r
    }
}

impl C09 {
    fn check_vals(&self, ctx: &mut Ctx, vals: Vec<GenVal>, frozen: bool, prefix: &str) -> CaseResult {
        let sample = format!("{prefix}{}vals = [{}]", if frozen { "[frozen+loaded] " } else { "" }, vals.iter().map(|v| v.src.clone()).collect::<Vec<_>>().join(", "));
        let mut r = CaseResult::new(sample);
        if frozen {
            r.label("frozen");
        }
        if vals.iter().any(|v| v.family == "number") {
            r.label("number_family");
        }
        if vals.iter().any(|v| v.family == "string") {
            r.label("string_family");
        }
        if vals.iter().any(|v| v.family != "number" && v.family != "string") {
            r.label("container_family");
        }
        let (laws, notes) = run_case(&vals, frozen);
        r.evals = laws.evals.max(1);
        for n in notes {
            r.fail("generator-bug", format!("{n}\n{}", r.sample));
        }
        let mut seen = std::collections::HashSet::new();
        for (class, msg) in laws.fails {
            // int/float precision finding: classify by the values involved
            // Only the transitivity law is part of the open finding; hash/lookup incoherence never is.
            let class = if class == "eq-transitivity" && is_int_float_precision(&msg) { "int-float-beyond-2-53".to_owned() } else { class };
            if !ctx.is_open(&class) || seen.insert(class.clone()) {
                r.fail(&class, msg);
            }
        }
        let mixed = vals.iter().enumerate().any(|(i, a)| vals.iter().skip(i + 1).any(|b| a.family == b.family && a.repr != b.repr));
        if mixed {
            r.nontrivial_self();
        }
        r
    }
}

/// Signature predicate of the known finding: the failing law involves a float operand whose magnitude is
/// at least 2^53 next to an int (comparison goes through f64), or an int outside the inline range next to
/// an integral float (different hashing).
fn is_int_float_precision(msg: &str) -> bool {
    let has_float = msg.contains("[float-integral]") || msg.contains("[float-nearest]") || msg.contains("[int-from-float]");
    let has_int = msg.contains("[int-literal]") || msg.contains("[int-arith]") || msg.contains("[int-from-str]") || msg.contains("[int-from-float]");
    if !(has_float && has_int) {
        return false;
    }
    // magnitude: some decimal literal with >= 16 digits appears (|x| >= 2^53 ~ 9.0e15)
    let mut run = 0;
    for c in msg.chars() {
        if c.is_ascii_digit() {
            run += 1;
            if run >= 16 {
                return true;
            }
        } else {
            run = 0;
        }
    }
    false
}
