//! Client for the persistent CPython oracle worker (/verif/oracle/py_oracle.py).

use std::io::BufRead;
use std::io::BufReader;
use std::io::Write;
use std::process::Child;
use std::process::ChildStdin;
use std::process::ChildStdout;
use std::process::Command;
use std::process::Stdio;

use serde_json::Value as J;

pub struct Oracle {
    child: Child,
    stdin: ChildStdin,
    stdout: BufReader<ChildStdout>,
    pub requests: u64,
}

impl Oracle {
    pub fn start() -> Oracle {
        let mut child = Command::new("python3")
            .arg("-S")
            .arg("-E")
            .arg("/verif/oracle/py_oracle.py")
            .stdin(Stdio::piped())
            .stdout(Stdio::piped())
            .stderr(Stdio::null())
            .spawn()
            .expect("cannot start python3 oracle");
        let stdin = child.stdin.take().unwrap();
        let stdout = BufReader::new(child.stdout.take().unwrap());
        let mut o = Oracle { child, stdin, stdout, requests: 0 };
        let hello = o.request(&serde_json::json!({"op": "hello"}));
        if hello["ok"].as_bool() != Some(true) {
            oracle_dead("bad hello");
        }
        o
    }

    pub fn request(&mut self, req: &J) -> J {
        self.requests += 1;
        let line = serde_json::to_string(req).unwrap();
        if self.stdin.write_all(line.as_bytes()).is_err() || self.stdin.write_all(b"\n").is_err() || self.stdin.flush().is_err() {
            oracle_dead("write failed");
        }
        let mut resp = String::new();
        match self.stdout.read_line(&mut resp) {
            Ok(n) if n > 0 => {}
            _ => oracle_dead("read failed"),
        }
        match serde_json::from_str(&resp) {
            Ok(j) => j,
            Err(_) => oracle_dead("bad json from oracle"),
        }
    }
}

fn oracle_dead(why: &str) -> ! {
    // An infrastructure failure: never a violation. The supervisor reports exit 2.
    println!("INCONCLUSIVE python oracle worker died: {why}");
    std::process::exit(4);
}

impl Drop for Oracle {
    fn drop(&mut self) {
        let _ = self.child.kill();
        let _ = self.child.wait();
    }
}
