//! Seed inputs taken from the repository's own tests (read at run time from /repo).

use std::path::Path;
use std::sync::OnceLock;

fn walk(dir: &Path, out: &mut Vec<std::path::PathBuf>) {
    let Ok(rd) = std::fs::read_dir(dir) else { return };
    let mut entries: Vec<_> = rd.filter_map(|e| e.ok()).map(|e| e.path()).collect();
    entries.sort();
    for p in entries {
        let name = p.file_name().and_then(|n| n.to_str()).unwrap_or("");
        if p.is_dir() {
            if name == "target" || name == ".git" || name == "node_modules" {
                continue;
            }
            walk(&p, out);
        } else if name.ends_with(".star") || name.ends_with(".bzl") || name.ends_with(".golden") {
            out.push(p);
        }
    }
}

/// Program texts: whole .star/.bzl files (<= 64 KiB) and the "Program:" sections of golden files.
pub fn programs() -> &'static [String] {
    static C: OnceLock<Vec<String>> = OnceLock::new();
    C.get_or_init(|| {
        let mut files = Vec::new();
        walk(Path::new("/repo"), &mut files);
        let mut out: Vec<String> = Vec::new();
        for f in files {
            let Ok(s) = std::fs::read_to_string(&f) else { continue };
            let name = f.to_string_lossy();
            if name.ends_with(".golden") {
                if let Some(i) = s.find("Program:\n") {
                    let rest = &s[i + "Program:\n".len()..];
                    let end = ["\n\nTokens:", "\n\nError:", "\n\nAST", "\n\nNo errors", "\n\nCompiled", "\n\nTypes", "\n\nApproximations", "\n\nInterface", "\n\nModule"]
                        .iter()
                        .filter_map(|m| rest.find(m))
                        .min()
                        .unwrap_or(rest.len());
                    let p = &rest[..end];
                    if !p.trim().is_empty() && p.len() <= 65536 {
                        out.push(p.to_owned());
                    }
                }
            } else if s.len() <= 65536 && !s.trim().is_empty() {
                // Test files of the Go suite contain many independent chunks separated by `---`.
                if s.contains("\n---\n") {
                    for chunk in s.split("\n---\n") {
                        if !chunk.trim().is_empty() {
                            out.push(chunk.to_owned());
                        }
                    }
                }
                out.push(s);
            }
        }
        if out.is_empty() {
            out.push("x = 1\n".to_owned());
        }
        out
    })
}
