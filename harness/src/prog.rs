//! Typed program generator (profile `shared` = Python-shared core; `full` adds Starlark-only forms).
//!
//! Programs are emitted as text with private-use marker characters around constants, callees and
//! receivers so that C02 can derive opacified variants of the same program:
//!   \u{E000} const \u{E001}    -> `const` or `opaque(const)`
//!   \u{E002} callee \u{E003}   -> `callee` or `opaque(callee)`
//!
//! Invariants the generator maintains (each is what makes the CPython differential sound):
//!  * well scoped: every name read is definitely assigned (unless a failure is injected on purpose);
//!  * terminating: loops over finite containers/ranges, recursion through a decreasing depth;
//!  * linear flow: every constructing operation has at most one variable-dependent str/container
//!    operand and repeat/multiply/shift counts are small literals, so sizes grow additively;
//!  * no mutation of a container that is (or may alias) one being iterated; functions only mutate
//!    containers they created themselves;
//!  * types are kept apart (no bool/int mixing, homogeneous containers).

use crate::engine::Choices;

pub const C_OPEN: char = '\u{E000}';
pub const C_CLOSE: char = '\u{E001}';
pub const F_OPEN: char = '\u{E002}';
pub const F_CLOSE: char = '\u{E003}';

#[derive(Clone, Debug, PartialEq)]
pub enum Ty {
    Int,
    Bool,
    Str,
    None,
    List(Box<Ty>),
    Tuple(Vec<Ty>),
    Dict(Box<Ty>, Box<Ty>),
}

impl Ty {
    pub fn is_container(&self) -> bool {
        matches!(self, Ty::List(_) | Ty::Tuple(_) | Ty::Dict(..))
    }
    /// Values whose size can grow (subject to the linear-flow rule).
    pub fn is_sized(&self) -> bool {
        matches!(self, Ty::Str | Ty::List(_) | Ty::Tuple(_) | Ty::Dict(..))
    }
    pub fn hashable(&self) -> bool {
        match self {
            Ty::Int | Ty::Str | Ty::Bool | Ty::None => true,
            Ty::Tuple(ts) => ts.iter().all(|t| t.hashable()),
            _ => false,
        }
    }
    pub fn orderable(&self) -> bool {
        match self {
            Ty::Int | Ty::Str => true,
            Ty::Tuple(ts) => ts.iter().all(|t| t.orderable()),
            Ty::List(t) => t.orderable(),
            _ => false,
        }
    }
    /// Safe to pass through str()/%s/format: same text in both languages.
    pub fn printable(&self) -> bool {
        matches!(self, Ty::Int | Ty::Str | Ty::Bool | Ty::None)
    }
}

#[derive(Clone, Debug)]
pub struct Var {
    pub name: String,
    pub ty: Ty,
    /// Alias group (containers): fresh values get a fresh group; group 0 = may alias anything.
    pub group: u32,
    /// May be mutated in place by the current function (it created the value itself).
    pub own: bool,
}

#[derive(Clone, Debug)]
pub struct Func {
    pub name: String,
    pub params: Vec<(String, Ty, Option<String>)>, // name, type, default (rendered)
    pub ret: Ty,
    pub star_args: Option<Ty>,
    pub recursive_depth: bool, // first parameter is a decreasing depth
    /// Parameters from this index on are keyword-only (they follow a bare `*`).
    pub kwonly_from: Option<usize>,
}

#[derive(Clone, Copy, PartialEq, Debug)]
pub enum ScopeKind {
    Module,
    Def,
}

pub struct Scope {
    pub kind: ScopeKind,
    pub vars: Vec<Var>,
    pub funcs: Vec<Func>,
    /// Alias groups currently being iterated (no in-place mutation of members).
    pub locked: Vec<u32>,
    pub loop_depth: u32,
    pub ret: Option<Ty>,
}

#[derive(Clone, Copy, PartialEq, Debug)]
pub enum Profile {
    Shared,
    Full,
}

#[derive(Clone)]
pub struct Opts {
    pub profile: Profile,
    pub max_stmts: usize,
    /// Probability (percent) that a program contains one injected runtime failure.
    pub fail_pct: u32,
    /// Allow `emit(..)` wrapped around sub-expressions (evaluation-order observation).
    pub inner_emits: bool,
    /// Emit statement-level markers `emit(<n>)` between statements.
    pub markers: bool,
    /// No in-place mutation of containers and no augmented assignment on them (static-checker domain).
    pub no_mutation: bool,
    /// Write parameter and return type annotations on defs.
    pub annotate: bool,
    /// Module-level optimiser-shaped defs under arbitrary signatures with well- and ill-formed calls (uses `catch`).
    pub inline_probes: bool,
}

impl Default for Opts {
    fn default() -> Opts {
        Opts { profile: Profile::Shared, max_stmts: 24, fail_pct: 25, inner_emits: true, markers: true, no_mutation: false, annotate: false, inline_probes: false }
    }
}

pub struct Gen<'a, 'c> {
    pub ch: &'a mut Choices<'c>,
    pub o: Opts,
    pub scopes: Vec<Scope>,
    pub out: String,
    pub indent: usize,
    next: u32,
    next_group: u32,
    pub labels: Vec<&'static str>,
    stmts_left: usize,
    inject_at: Option<usize>,
    pub injected: bool,
    marker: u32,
    depth_guard: u32,
}

const STR_POOL: &[&str] = &["", "a", "b", "ab", "abc", "hello", "x y", "A-b_C", "12", "é", "名前", "a😀b", "ba ba", "  pad ", "Q"];
const ASCII_POOL: &[&str] = &["", "a", "b", "ab", "abc", "hello", "x y", "A-b_C", "12", "ba ba", "  pad ", "Q", "a,b,c", "k=v"];

pub fn str_lit(s: &str) -> String {
    let mut o = String::from("\"");
    for c in s.chars() {
        match c {
            '"' => o.push_str("\\\""),
            '\\' => o.push_str("\\\\"),
            '\n' => o.push_str("\\n"),
            '\t' => o.push_str("\\t"),
            c => o.push(c),
        }
    }
    o.push('"');
    o
}

/// Parenthesise an expression unless it is already atomic at top level (used before postfix
/// operators: method call, index, slice — a bare `a + b` receiver would regroup as `a + (b.m())`).
pub fn atomize(e: String) -> String {
    let mut depth = 0i32;
    let mut quote: Option<char> = None;
    let mut prev = ' ';
    for c in e.chars() {
        if let Some(q) = quote {
            if c == q && prev != '\\' {
                quote = None;
            }
        } else {
            match c {
                '"' | '\'' => quote = Some(c),
                '(' | '[' | '{' => depth += 1,
                ')' | ']' | '}' => depth -= 1,
                ' ' | '-' | '+' | '~' if depth == 0 => return format!("({e})"),
                _ => {}
            }
        }
        prev = c;
    }
    e
}

fn konst(s: String) -> String {
    format!("{C_OPEN}{s}{C_CLOSE}")
}

fn callee(s: &str) -> String {
    format!("{F_OPEN}{s}{F_CLOSE}")
}

impl<'a, 'c> Gen<'a, 'c> {
    pub fn new(ch: &'a mut Choices<'c>, o: Opts) -> Gen<'a, 'c> {
        let stmts = o.max_stmts;
        Gen {
            ch,
            o,
            scopes: vec![Scope { kind: ScopeKind::Module, vars: Vec::new(), funcs: Vec::new(), locked: Vec::new(), loop_depth: 0, ret: None }],
            out: String::new(),
            indent: 0,
            next: 0,
            next_group: 1,
            labels: Vec::new(),
            stmts_left: stmts,
            inject_at: None,
            injected: false,
            marker: 0,
            depth_guard: 0,
        }
    }

    pub fn label(&mut self, l: &'static str) {
        if !self.labels.contains(&l) {
            self.labels.push(l);
        }
    }
    fn fresh(&mut self, p: &str) -> String {
        self.next += 1;
        format!("{p}{}", self.next)
    }
    fn fresh_group(&mut self) -> u32 {
        self.next_group += 1;
        self.next_group
    }
    fn scope(&mut self) -> &mut Scope {
        self.scopes.last_mut().unwrap()
    }
    fn full(&self) -> bool {
        self.o.profile == Profile::Full
    }
    pub fn line(&mut self, s: &str) {
        for _ in 0..self.indent {
            self.out.push_str("    ");
        }
        self.out.push_str(s);
        self.out.push('\n');
    }

    // ---------------- types ----------------

    pub fn gen_ty(&mut self, depth: u32) -> Ty {
        let w: &[u32] = if depth >= 2 { &[5, 2, 4, 0, 0, 0, 0] } else { &[6, 2, 5, 1, 5, 2, 3] };
        match self.ch.weighted(w) {
            0 => Ty::Int,
            1 => Ty::Bool,
            2 => Ty::Str,
            3 => Ty::None,
            4 => Ty::List(Box::new(self.gen_ty(depth + 1))),
            5 => {
                let n = 1 + self.ch.idx(3);
                Ty::Tuple((0..n).map(|_| self.gen_ty(depth + 1)).collect())
            }
            _ => {
                let k = if self.ch.bool() { Ty::Str } else { Ty::Int };
                Ty::Dict(Box::new(k), Box::new(self.gen_ty(depth + 1)))
            }
        }
    }

    // ---------------- variables ----------------

    /// Visible variables of the given type: current scope plus (read-only) enclosing scopes.
    fn vars_of(&self, ty: &Ty) -> Vec<Var> {
        let mut v = Vec::new();
        for (i, s) in self.scopes.iter().enumerate().rev() {
            let innermost = i == self.scopes.len() - 1;
            for x in &s.vars {
                if x.ty == *ty && !v.iter().any(|y: &Var| y.name == x.name) {
                    let mut x = x.clone();
                    if !innermost {
                        x.own = false;
                    }
                    v.push(x);
                }
            }
        }
        v
    }

    fn pick_var(&mut self, ty: &Ty) -> Option<Var> {
        let v = self.vars_of(ty);
        if v.is_empty() { None } else { Some(v[self.ch.idx(v.len())].clone()) }
    }

    fn funcs_returning(&self, ty: &Ty) -> Vec<Func> {
        let mut v = Vec::new();
        for s in self.scopes.iter().rev() {
            for f in &s.funcs {
                if f.ret == *ty && !v.iter().any(|g: &Func| g.name == f.name) {
                    v.push(f.clone());
                }
            }
        }
        v
    }

    // ---------------- literals ----------------

    fn int_lit(&mut self) -> String {
        let v: i128 = match self.ch.weighted(&[10, 4, 3, 2]) {
            0 => self.ch.range(-3, 12) as i128,
            1 => self.ch.range(-1000, 1000) as i128,
            2 => {
                let k = *self.ch.pick(&[31u32, 32, 53, 63, 64]);
                let base = 1i128 << k;
                let d = self.ch.range(-2, 2) as i128;
                if self.ch.bool() { base + d } else { -(base + d) }
            }
            _ => {
                let hi = self.ch.u64() as i128;
                let lo = self.ch.u64() as i128;
                (hi << 40) ^ lo
            }
        };
        if v < 0 { konst(format!("({v})")) } else { konst(format!("{v}")) }
    }

    fn small_int_lit(&mut self, lo: i64, hi: i64) -> String {
        let v = self.ch.range(lo, hi);
        if v < 0 { konst(format!("({v})")) } else { konst(format!("{v}")) }
    }

    fn str_const(&mut self, ascii: bool) -> String {
        let pool = if ascii { ASCII_POOL } else { STR_POOL };
        konst(str_lit(self.ch.pick_s(pool)))
    }

    /// A variable-free expression of the given type (literals only, small).
    pub fn fresh_expr(&mut self, ty: &Ty, depth: u32) -> String {
        match ty {
            Ty::Int => self.int_lit(),
            Ty::Bool => konst((*self.ch.pick(&["False", "True"])).to_owned()),
            Ty::Str => self.str_const(false),
            Ty::None => "None".to_owned(),
            Ty::List(t) => {
                let n = if depth > 2 { self.ch.idx(2) } else { self.ch.idx(4) };
                let items: Vec<String> = (0..n).map(|_| self.fresh_expr(t, depth + 1)).collect();
                format!("[{}]", items.join(", "))
            }
            Ty::Tuple(ts) => {
                let items: Vec<String> = ts.clone().iter().map(|t| self.fresh_expr(t, depth + 1)).collect();
                if items.len() == 1 { format!("({},)", items[0]) } else { format!("({})", items.join(", ")) }
            }
            Ty::Dict(k, v) => {
                let n = self.ch.idx(4);
                let mut items = Vec::new();
                for i in 0..n {
                    // distinct constant keys (duplicate literal keys are an error in Starlark)
                    let key = match **k {
                        Ty::Int => konst(format!("{}", i as i64 * 3 + self.ch.range(0, 2))),
                        _ => konst(str_lit(&format!("{}{}", ["k", "a", "zz", "é"][i % 4], i))),
                    };
                    let val = self.fresh_expr(v, depth + 1);
                    items.push(format!("{key}: {val}"));
                }
                format!("{{{}}}", items.join(", "))
            }
        }
    }

    // ---------------- expressions ----------------

    /// Binary operators are usually parenthesised; sometimes the parentheses are left out so that
    /// grouping is decided by each implementation's grammar (operands keep their types under any
    /// regrouping because these operators are closed over their operand type).
    fn paren(&mut self, e: String) -> String {
        if self.ch.chance(1, 3) {
            self.label("bare_ops");
            e
        } else {
            format!("({e})")
        }
    }

    fn maybe_emit(&mut self, e: String, ty: &Ty) -> String {
        // emit() inside operand positions observes evaluation order
        if self.o.inner_emits && !matches!(ty, Ty::None) && self.ch.chance(1, 14) {
            self.label("inner_emit");
            format!("emit({e})")
        } else {
            e
        }
    }

    /// `flow` = a variable-dependent str/container operand is still allowed in this expression.
    pub fn expr(&mut self, ty: &Ty, depth: u32, flow: bool) -> String {
        self.depth_guard += 1;
        let r = if depth >= 4 || self.depth_guard > 60 || self.ch.exhausted() { self.leaf(ty, flow) } else { self.expr_inner(ty, depth, flow) };
        self.depth_guard -= 1;
        self.maybe_emit(r, ty)
    }

    fn leaf(&mut self, ty: &Ty, flow: bool) -> String {
        if (flow || !ty.is_sized()) && self.ch.chance(3, 5) {
            if let Some(v) = self.pick_var(ty) {
                return v.name;
            }
        }
        self.fresh_expr(ty, 2)
    }

    /// Starlark-only forms (profile `full`): optimiser targets such as type()/isinstance()/len()
    /// specialisations, f-strings, structs, floats, constant conditions, speculative-exec builtins.
    fn full_expr(&mut self, ty: &Ty, d: u32, flow: bool) -> Option<String> {
        match ty {
            Ty::Bool => Some(match self.ch.below(7) {
                5 | 6 => {
                    // comparisons whose operands are equal across representations (float vs int, big vs small, bool vs int):
                    // comparing against a constant compiles to specialised instructions
                    let c = self.ch.range(-3, 40);
                    let c2 = if self.ch.chance(2, 3) { c } else { c + 1 };
                    let lhs = match self.ch.below(5) {
                        0 => format!("({} * 1.0)", konst(format!("{c}"))),
                        1 => format!("{}({})", callee("float"), konst(format!("{c}"))),
                        2 => format!("({} / 2)", konst(format!("{}", 2 * c))),
                        3 => format!("({} - {})", konst(format!("{}", (1i64 << 40) + c)), konst(format!("{}", 1i64 << 40))),
                        _ => format!("({} + 0.0)", self.small_int_lit(c, c)),
                    };
                    let op = *self.ch.pick(&["==", "!=", "==", "<=", ">="]);
                    let rhs = konst(format!("{}", if c2 < 0 { format!("({c2})") } else { format!("{c2}") }));
                    if self.ch.bool() { format!("({lhs} {op} {rhs})") } else { format!("({rhs} {op} {lhs})") }
                }
                0 => {
                    let t = self.gen_ty(1);
                    let a = self.expr(&t, d, true);
                    let tn = konst(str_lit(self.ch.pick_s(&["int", "string", "list", "bool", "NoneType", "dict", "tuple"])));
                    format!("({}({a}) == {tn})", callee("type"))
                }
                1 => {
                    let t = self.gen_ty(1);
                    let a = self.expr(&t, d, true);
                    let tn = *self.ch.pick(&["int", "str", "list", "bool", "dict", "tuple", "int | str", "list[int]"]);
                    format!("{}({a}, {tn})", callee("isinstance"))
                }
                2 => {
                    let a = self.expr(&Ty::Int, d, true);
                    let b = self.small_int_lit(1, 9);
                    format!("(({a} / {b}) > {})", konst("0.5".into()))
                }
                3 => {
                    let a = self.expr(&Ty::Str, d, true);
                    format!("{}({a}, {})", callee("hasattr"), konst(str_lit(self.ch.pick_s(&["upper", "nope", "append"]))))
                }
                _ => {
                    let a = self.expr(&Ty::Int, d, true);
                    format!("(struct(a = {a}, b = {}).a == {})", konst("2".into()), konst("2".into()))
                }
            }),
            Ty::Str => Some(match self.ch.below(6) {
                0 => {
                    // f-string over simple variables
                    let vars = self.vars_of(&Ty::Int);
                    if vars.is_empty() {
                        return None;
                    }
                    let v = vars[self.ch.idx(vars.len())].name.clone();
                    let conv = *self.ch.pick(&["", "!r", "!s"]);
                    format!("f\"<{{{v}{conv}}}|{{{v}}}>\"")
                }
                1 => {
                    let t = self.gen_ty(1);
                    let a = self.expr(&t, d, flow);
                    format!("{}({a})", callee("repr"))
                }
                2 => {
                    let t = self.gen_ty(1);
                    let a = self.expr(&t, d, flow);
                    format!("{}({a})", callee("str"))
                }
                3 => {
                    let t = self.gen_ty(1);
                    let a = self.expr(&t, d, flow);
                    format!("({} % ({a},))", konst(str_lit(self.ch.pick_s(&["%s", "<%r>", "%s!"]))))
                }
                4 => {
                    let t = self.gen_ty(1);
                    let a = self.expr(&t, d, flow);
                    format!("{}.format({a})", konst(str_lit(self.ch.pick_s(&["{}", "<{!r}>", "{0}{0}"]))))
                }
                _ => {
                    let a = self.expr(&Ty::Int, d, true);
                    format!("{}(struct(x = {a}, y = {}))", callee("str"), konst(str_lit("s")))
                }
            }),
            Ty::Int => Some(match self.ch.below(4) {
                0 => {
                    let a = self.expr(&Ty::Int, d, flow);
                    let b = self.small_int_lit(1, 9);
                    format!("{}({a} / {b})", callee("int"))
                }
                1 => {
                    let s = self.str_const(false);
                    format!("{}({s})", callee("hash"))
                }
                2 => {
                    let t = self.sized_ty();
                    let a = self.fresh_expr(&t, 1);
                    format!("{}({a})", callee("len"))
                }
                _ => {
                    let a = self.expr(&Ty::Int, d, flow);
                    let c = konst((*self.ch.pick(&["True", "False", "1 == 1", "not True"])).to_owned());
                    let b = self.expr(&Ty::Int, d, flow);
                    format!("({a} if {c} else {b})")
                }
            }),
            _ => None,
        }
    }

    fn expr_inner(&mut self, ty: &Ty, depth: u32, flow: bool) -> String {
        let d = depth + 1;
        if self.full() && self.ch.chance(1, 6) {
            if let Some(e) = self.full_expr(ty, d, flow) {
                self.label("full_form");
                return e;
            }
        }
        match ty {
            Ty::Int => match self.ch.weighted(&[8, 6, 3, 3, 2, 2, 2, 2, 2, 1, 2, 1, 1]) {
                0 => self.leaf(ty, flow),
                1 => {
                    // additive / bitwise ops: both operands may be variable dependent
                    let op = *self.ch.pick(&["+", "-", "+", "-", "&", "|", "^"]);
                    let a = self.expr(&Ty::Int, d, flow);
                    let b = self.expr(&Ty::Int, d, flow);
                    self.paren(format!("{a} {op} {b}"))
                }
                2 => {
                    // multiplicative: one side is a small literal (linear growth)
                    let a = self.expr(&Ty::Int, d, flow);
                    let b = if self.ch.chance(1, 5) { self.int_lit() } else { self.small_int_lit(-7, 9) };
                    let e = if self.ch.bool() { format!("{a} * {b}") } else { format!("{b} * {a}") };
                    self.paren(e)
                }
                3 => {
                    // floor division / modulo; divisor is a non-zero literal unless failure injected
                    let op = *self.ch.pick(&["//", "%"]);
                    let a = self.expr(&Ty::Int, d, flow);
                    let mut b = self.ch.range(-9, 9);
                    if b == 0 {
                        b = 7;
                    }
                    let bl = if self.ch.chance(1, 6) { format!("{}", (1i128 << 33) + b as i128) } else { format!("{b}") };
                    let bl = if bl.starts_with('-') { format!("({bl})") } else { bl };
                    self.paren(format!("{a} {op} {}", konst(bl)))
                }
                4 => {
                    let op = *self.ch.pick(&["<<", ">>"]);
                    let a = self.expr(&Ty::Int, d, flow);
                    let b = self.small_int_lit(0, 40);
                    // always parenthesised: a following bare `+ y` would otherwise join the shift count
                    format!("({a} {op} {b})")
                }
                5 => {
                    let op = *self.ch.pick(&["-", "~", "+"]);
                    let a = self.expr(&Ty::Int, d, flow);
                    format!("({op}{a})")
                }
                6 => {
                    // len of something (non-constructive: operands may be variable dependent)
                    let t = self.sized_ty();
                    let a = self.expr(&t, d, true);
                    format!("{}({a})", callee("len"))
                }
                7 => self.index_expr(&Ty::Int, d, flow),
                8 => self.call_expr(&Ty::Int, d, flow),
                9 => {
                    let c = self.expr(&Ty::Bool, d, true);
                    let a = self.expr(&Ty::Int, d, flow);
                    let b = self.expr(&Ty::Int, d, flow);
                    if self.ch.chance(1, 3) {
                        // chained conditional: grouping of the else arm is decided by each implementation's grammar
                        let c2 = self.expr(&Ty::Bool, d, true);
                        let b2 = self.expr(&Ty::Int, d, flow);
                        self.label("chained_conditional");
                        format!("({a} if {c} else {b} if {c2} else {b2})")
                    } else {
                        format!("({a} if {c} else {b})")
                    }
                }
                10 => {
                    let s = atomize(self.expr(&Ty::Str, d, true));
                    let sub = self.str_const(false);
                    // empty needle excluded (corner where conventions differ is outside the shared core)
                    let m = *self.ch.pick(&["find", "rfind", "count"]);
                    format!("{s}.{m}({sub} + {})", konst(str_lit("a")))
                }
                11 => {
                    let a = self.expr(&Ty::Int, d, flow);
                    format!("{}({a})", callee("abs"))
                }
                _ => {
                    let n = 1 + self.ch.idx(3);
                    let items: Vec<String> = (0..n).map(|_| self.expr(&Ty::Int, d, flow)).collect();
                    let f = *self.ch.pick(&["max", "min"]);
                    if n == 1 { format!("{}([{}])", callee(f), items[0]) } else { format!("{}({})", callee(f), items.join(", ")) }
                }
            },
            Ty::Bool => match self.ch.weighted(&[4, 8, 3, 3, 3, 2, 2]) {
                0 => self.leaf(ty, flow),
                1 => {
                    let t = self.cmp_ty();
                    let ops: &[&str] = if t.orderable() { &["==", "!=", "<", "<=", ">", ">="] } else { &["==", "!="] };
                    let op = *self.ch.pick(ops);
                    let a = self.expr(&t, d, true);
                    let b = self.expr(&t, d, true);
                    format!("({a} {op} {b})")
                }
                2 => {
                    let a = self.expr(&Ty::Bool, d, flow);
                    format!("(not {a})")
                }
                3 => {
                    let op = *self.ch.pick(&["and", "or"]);
                    let a = self.expr(&Ty::Bool, d, flow);
                    let b = self.expr(&Ty::Bool, d, flow);
                    self.paren(format!("{a} {op} {b}"))
                }
                4 => {
                    // membership
                    let neg = if self.ch.chance(1, 3) { "not in" } else { "in" };
                    match self.ch.below(3) {
                        0 => {
                            let t = if self.ch.bool() { Ty::Int } else { Ty::Str };
                            let x = self.expr(&t, d, true);
                            let xs = self.expr(&Ty::List(Box::new(t)), d, true);
                            format!("({x} {neg} {xs})")
                        }
                        1 => {
                            let kt = if self.ch.bool() { Ty::Int } else { Ty::Str };
                            let x = self.expr(&kt, d, true);
                            let vt = self.gen_ty(2);
                            let dd = self.expr(&Ty::Dict(Box::new(kt), Box::new(vt)), d, true);
                            format!("({x} {neg} {dd})")
                        }
                        _ => {
                            let x = self.expr(&Ty::Str, d, true);
                            let s = self.expr(&Ty::Str, d, true);
                            format!("({x} {neg} {s})")
                        }
                    }
                }
                5 => {
                    let s = atomize(self.expr(&Ty::Str, d, true));
                    let m = *self.ch.pick(&["startswith", "endswith"]);
                    let p = self.str_const(false);
                    format!("{s}.{m}({p})")
                }
                _ => {
                    let t = self.gen_ty(1);
                    let a = self.expr(&t, d, true);
                    format!("{}({a})", callee("bool"))
                }
            },
            Ty::Str => match self.ch.weighted(&[8, 5, 3, 4, 5, 3, 3, 2, 2, 2]) {
                0 => self.leaf(ty, flow),
                1 => {
                    let a = self.expr(&Ty::Str, d, flow);
                    let b = self.expr(&Ty::Str, d, false);
                    let e = if self.ch.bool() { format!("{a} + {b}") } else { format!("{b} + {a}") };
                    self.paren(e)
                }
                2 => {
                    // repetition multiplies the size: only variable-free operands (a loop would otherwise grow it
                    // geometrically)
                    let a = self.expr(&Ty::Str, d, false);
                    let n = self.small_int_lit(-1, 3);
                    if self.ch.bool() { format!("({a} * {n})") } else { format!("({n} * {a})") }
                }
                3 => {
                    let a = atomize(self.expr(&Ty::Str, d, flow));
                    let sl = self.slice_suffix();
                    format!("{a}{sl}")
                }
                4 => self.str_method(d, flow),
                5 => {
                    // str() of a printable value
                    let t = self.printable_ty();
                    let a = self.expr(&t, d, flow);
                    format!("{}({a})", callee("str"))
                }
                6 => self.format_expr(d, flow),
                7 => self.index_expr(&Ty::Str, d, flow),
                8 => self.call_expr(&Ty::Str, d, flow),
                _ => {
                    let c = self.expr(&Ty::Bool, d, true);
                    let a = self.expr(&Ty::Str, d, flow);
                    let b = self.expr(&Ty::Str, d, false);
                    format!("({a} if {c} else {b})")
                }
            },
            Ty::None => {
                if self.ch.chance(1, 3) { self.call_expr(&Ty::None, d, flow) } else { "None".to_owned() }
            }
            Ty::List(t) => {
                let t = (**t).clone();
                match self.ch.weighted(&[7, 4, 3, 2, 3, 5, 3, 2, 2, 2, 2]) {
                    0 => self.leaf(ty, flow),
                    1 => {
                        let n = self.ch.idx(4);
                        let mut items = Vec::new();
                        let mut fl = flow;
                        for _ in 0..n {
                            let e = self.expr(&t, d, fl);
                            if t.is_sized() {
                                fl = false;
                            }
                            items.push(e);
                        }
                        format!("[{}]", items.join(", "))
                    }
                    2 => {
                        let a = self.expr(ty, d, flow);
                        let b = self.expr(ty, d, false);
                        let e = if self.ch.bool() { format!("{a} + {b}") } else { format!("{b} + {a}") };
                        self.paren(e)
                    }
                    3 => {
                        let a = self.expr(ty, d, false);
                        let n = self.small_int_lit(-1, 3);
                        format!("({a} * {n})")
                    }
                    4 => {
                        let a = atomize(self.expr(ty, d, flow));
                        let sl = self.slice_suffix();
                        format!("{a}{sl}")
                    }
                    5 => self.list_compr(&t, d, flow),
                    6 if t.orderable() => {
                        let a = self.expr(ty, d, flow);
                        let rev = if self.ch.chance(1, 3) { ", reverse=True" } else { "" };
                        if t == Ty::Int && self.ch.chance(1, 3) {
                            self.label("lambda");
                            let k = self.fresh("k");
                            let m = self.small_int_lit(2, 5);
                            format!("{}({a}, key=lambda {k}: {k} % {m}{rev})", callee("sorted"))
                        } else {
                            format!("{}({a}{rev})", callee("sorted"))
                        }
                    }
                    7 if t == Ty::Int => {
                        let (a, b, c) = (self.small_int_lit(-3, 4), self.small_int_lit(-3, 9), self.ch.range(-3, 3));
                        let c = if c == 0 { 1 } else { c };
                        match self.ch.below(3) {
                            0 => format!("{}(range({b}))", callee("list")),
                            1 => format!("{}(range({a}, {b}))", callee("list")),
                            _ => format!("{}(range({a}, {b}, {}))", callee("list"), konst(if c < 0 { format!("({c})") } else { format!("{c}") })),
                        }
                    }
                    8 if t == Ty::Str => {
                        let s = atomize(self.expr(&Ty::Str, d, flow));
                        let sep = konst(str_lit(self.ch.pick_s(&[" ", ",", "a", "b", "ab", "-"])));
                        match self.ch.below(3) {
                            0 => format!("{s}.split({sep})"),
                            1 => format!("{s}.split({sep}, {})", self.small_int_lit(0, 2)),
                            _ => format!("{s}.rsplit({sep}, {})", self.small_int_lit(0, 2)),
                        }
                    }
                    9 => {
                        let a = self.expr(ty, d, flow);
                        format!("{}({}({a}))", callee("list"), callee("reversed"))
                    }
                    _ => {
                        if let Ty::Tuple(ts) = &t {
                            if ts.len() == 2 && ts[0] == Ty::Int {
                                let inner = Ty::List(Box::new(ts[1].clone()));
                                let a = self.expr(&inner, d, flow);
                                return format!("{}({}({a}))", callee("list"), callee("enumerate"));
                            }
                            if ts.len() == 2 {
                                let a = self.expr(&Ty::List(Box::new(ts[0].clone())), d, flow);
                                let b = self.expr(&Ty::List(Box::new(ts[1].clone())), d, false);
                                return format!("{}({}({a}, {b}))", callee("list"), callee("zip"));
                            }
                        }
                        if let Some(kt) = self.dict_with_key(&t) {
                            let a = atomize(self.expr(&kt, d, flow));
                            return format!("{}({a}.keys())", callee("list"));
                        }
                        self.call_expr(ty, d, flow)
                    }
                }
            }
            Ty::Tuple(ts) => {
                let ts = ts.clone();
                match self.ch.weighted(&[5, 8, 2]) {
                    0 => self.leaf(ty, flow),
                    1 => {
                        let mut fl = flow;
                        let mut items = Vec::new();
                        for t in &ts {
                            let e = self.expr(t, d, fl || !t.is_sized());
                            if t.is_sized() {
                                fl = false;
                            }
                            items.push(e);
                        }
                        if items.len() == 1 { format!("({},)", items[0]) } else { format!("({})", items.join(", ")) }
                    }
                    _ => self.call_expr(ty, d, flow),
                }
            }
            Ty::Dict(k, v) => {
                let (k, v) = ((**k).clone(), (**v).clone());
                match self.ch.weighted(&[6, 5, 4, 2, 2]) {
                    0 => self.leaf(ty, flow),
                    1 => self.fresh_dict(&k, &v, d, flow),
                    2 => {
                        // dict comprehension
                        self.label("dict_compr");
                        let it = self.fresh("i");
                        let src = self.expr(&Ty::List(Box::new(k.clone())), d, flow);
                        self.scope().vars.push(Var { name: it.clone(), ty: k.clone(), group: 0, own: false });
                        let val = self.expr(&v, d, false);
                        self.scope().vars.retain(|x| x.name != it);
                        format!("{{{it}: {val} for {it} in {src}}}")
                    }
                    3 => {
                        let a = self.expr(ty, d, flow);
                        format!("{}({a})", callee("dict"))
                    }
                    _ => {
                        let ks = self.expr(&Ty::List(Box::new(k.clone())), d, flow);
                        let vs = self.expr(&Ty::List(Box::new(v.clone())), d, false);
                        format!("{}({}({ks}, {vs}))", callee("dict"), callee("zip"))
                    }
                }
            }
        }
    }

    fn fresh_dict(&mut self, k: &Ty, v: &Ty, d: u32, flow: bool) -> String {
        let n = self.ch.idx(4);
        let mut items = Vec::new();
        let mut fl = flow;
        for i in 0..n {
            let key = match k {
                Ty::Int => konst(format!("{}", i as i64 * 3 + self.ch.range(0, 2))),
                _ => konst(str_lit(&format!("{}{}", ["k", "a", "zz", "é"][i % 4], i))),
            };
            let val = self.expr(v, d, fl || !v.is_sized());
            if v.is_sized() {
                fl = false;
            }
            items.push(format!("{key}: {val}"));
        }
        format!("{{{}}}", items.join(", "))
    }

    fn dict_with_key(&self, k: &Ty) -> Option<Ty> {
        for s in self.scopes.iter().rev() {
            for v in &s.vars {
                if let Ty::Dict(kk, _) = &v.ty {
                    if **kk == *k {
                        return Some(v.ty.clone());
                    }
                }
            }
        }
        None
    }

    fn sized_ty(&mut self) -> Ty {
        match self.ch.below(4) {
            0 => Ty::Str,
            1 => Ty::List(Box::new(Ty::Int)),
            2 => Ty::List(Box::new(Ty::Str)),
            _ => Ty::Dict(Box::new(Ty::Str), Box::new(Ty::Int)),
        }
    }

    fn cmp_ty(&mut self) -> Ty {
        match self.ch.below(6) {
            0 | 1 => Ty::Int,
            2 => Ty::Str,
            3 => Ty::List(Box::new(Ty::Int)),
            4 => Ty::Tuple(vec![Ty::Int, Ty::Str]),
            _ => Ty::Dict(Box::new(Ty::Str), Box::new(Ty::Int)),
        }
    }

    fn printable_ty(&mut self) -> Ty {
        match self.ch.below(5) {
            0 | 1 => Ty::Int,
            2 => Ty::Str,
            3 => Ty::Bool,
            _ => Ty::None,
        }
    }

    fn slice_suffix(&mut self) -> String {
        let mut part = |g: &mut Gen, lo: i64, hi: i64| -> String { if g.ch.chance(1, 3) { String::new() } else { g.small_int_lit(lo, hi) } };
        let a = part(self, -5, 6);
        let b = part(self, -5, 8);
        if self.ch.chance(1, 3) {
            self.label("slice_stride");
            let c = self.ch.range(-3, 3);
            let c = if c == 0 { 2 } else { c };
            let c = konst(if c < 0 { format!("({c})") } else { format!("{c}") });
            format!("[{a}:{b}:{c}]")
        } else {
            format!("[{a}:{b}]")
        }
    }

    fn str_method(&mut self, d: u32, flow: bool) -> String {
        match self.ch.below(9) {
            0 => {
                // case methods: ASCII receivers only
                let m = *self.ch.pick(&["upper", "lower"]);
                let s = self.str_const(true);
                let t = self.str_const(true);
                format!("({s} + {t}).{m}()")
            }
            1 => {
                let s = atomize(self.expr(&Ty::Str, d, flow));
                let m = *self.ch.pick(&["strip", "lstrip", "rstrip"]);
                let cs = konst(str_lit(self.ch.pick_s(&[" ", "a", "ab", " a", "x-"])));
                format!("{s}.{m}({cs})")
            }
            2 => {
                // replace: `new` no longer than `old` + constant; both literals (linear flow)
                let s = atomize(self.expr(&Ty::Str, d, flow));
                let old = konst(str_lit(self.ch.pick_s(&["a", "b", "ab", " ", "é", "ba"])));
                let new = konst(str_lit(self.ch.pick_s(&["", "a", "X", "yz", "名"])));
                format!("{s}.replace({old}, {new})")
            }
            3 => {
                self.label("join");
                let sep = self.str_const(false);
                let xs = self.expr(&Ty::List(Box::new(Ty::Str)), d, flow);
                format!("{}.join({xs})", atomize(sep))
            }
            4 => {
                let s = atomize(self.expr(&Ty::Str, d, flow));
                let p = self.str_const(false);
                let m = *self.ch.pick(&["removeprefix", "removesuffix"]);
                format!("{s}.{m}({p})")
            }
            5 => {
                // partition -> pick a component
                let s = atomize(self.expr(&Ty::Str, d, flow));
                let sep = konst(str_lit(self.ch.pick_s(&["a", " ", "-", "b"])));
                let m = *self.ch.pick(&["partition", "rpartition"]);
                format!("{s}.{m}({sep})[{}]", self.small_int_lit(0, 2))
            }
            6 => {
                let a = self.expr(&Ty::Int, d, true);
                format!("{}(({a}) % {} + {})", callee("chr"), konst("500".into()), konst("33".into()))
            }
            7 => {
                let s = self.str_const(true);
                let m = *self.ch.pick(&["capitalize", "title", "swapcase", "upper"]);
                if m == "swapcase" { format!("{s}.upper()") } else { format!("{s}.{m}()") }
            }
            _ => {
                let s = self.expr(&Ty::Str, d, flow);
                let t = self.expr(&Ty::Str, d, false);
                format!("({s} + {t})")
            }
        }
    }

    fn format_expr(&mut self, d: u32, flow: bool) -> String {
        self.label("format");
        let n = 1 + self.ch.idx(3);
        let mut fl = flow;
        let mut args = Vec::new();
        let mut tys = Vec::new();
        for _ in 0..n {
            let t = self.printable_ty();
            let e = self.expr(&t, d, fl || !t.is_sized());
            if t.is_sized() {
                fl = false;
            }
            args.push(e);
            tys.push(t);
        }
        if self.ch.bool() {
            // % formatting
            let mut f = String::new();
            for (i, t) in tys.iter().enumerate() {
                f.push_str(["<", "-", " ", "%%"][i % 4]);
                let spec = match t {
                    Ty::Int => *self.ch.pick(&["%d", "%s", "%x", "%o", "%r", "%d"]),
                    _ => "%s",
                };
                f.push_str(spec);
            }
            let tuple = if args.len() == 1 && self.ch.bool() { format!("({})", args[0]) } else if args.len() == 1 { format!("({},)", args[0]) } else { format!("({})", args.join(", ")) };
            // a single str/None/bool argument is never passed bare when it could be a tuple: all are scalars here
            format!("({} % {tuple})", konst(str_lit(&f)))
        } else {
            let mut f = String::new();
            let mode = self.ch.below(3);
            for i in 0..n {
                f.push_str(["[", "|", "{{}}", "é"][i % 4]);
                match mode {
                    0 => f.push_str("{}"),
                    1 => f.push_str(&format!("{{{}}}", n - 1 - i)),
                    _ => f.push_str(&format!("{{a{i}}}")),
                }
            }
            let args: Vec<String> = if mode == 2 { args.iter().enumerate().map(|(i, a)| format!("a{i}={a}")).collect() } else { args };
            format!("{}.format({})", konst(str_lit(&f)), args.join(", "))
        }
    }

    /// Index into a list/dict/tuple variable yielding `ty` (may fail at run time only when injected).
    fn index_expr(&mut self, ty: &Ty, d: u32, flow: bool) -> String {
        let lt = Ty::List(Box::new(ty.clone()));
        if *ty == Ty::Str && self.ch.chance(1, 3) {
            // string indexing yields a one-character string; guard with a non-empty literal suffix
            let s = self.expr(&Ty::Str, d, flow);
            return format!("({s} + {})[{}]", konst(str_lit("z")), self.small_int_lit(-1, 0));
        }
        if let Some(v) = self.pick_var(&lt) {
            if flow || !ty.is_sized() {
                // guarded index: (xs + [fresh])[i] with i in {0,-1}: never fails
                let f = self.fresh_expr(ty, 2);
                let i = self.small_int_lit(-1, 0);
                return format!("({} + [{f}])[{i}]", v.name);
            }
        }
        for kt in [Ty::Str, Ty::Int] {
            let dt = Ty::Dict(Box::new(kt.clone()), Box::new(ty.clone()));
            if let Some(v) = self.pick_var(&dt) {
                if flow || !ty.is_sized() {
                    let k = self.expr(&kt, d, true);
                    let f = self.fresh_expr(ty, 2);
                    return format!("{}.get({k}, {f})", v.name);
                }
            }
        }
        self.leaf(ty, flow)
    }

    fn call_expr(&mut self, ty: &Ty, d: u32, flow: bool) -> String {
        let fs = self.funcs_returning(ty);
        // a user function may return (something built from) an enclosing sized variable: not variable-free
        if fs.is_empty() || (!flow && ty.is_sized()) {
            return self.leaf(ty, flow);
        }
        let f = fs[self.ch.idx(fs.len())].clone();
        self.label("call");
        self.call_of(&f, d, flow)
    }

    pub fn call_of(&mut self, f: &Func, d: u32, flow: bool) -> String {
        let mut fl = flow;
        let mut args = Vec::new();
        let mut named_from: Option<usize> = None;
        let k = f.kwonly_from.unwrap_or(f.params.len());
        let mut all_named = false;
        for (i, (name, t, def)) in f.params.iter().enumerate().take(k) {
            if def.is_some() && self.ch.chance(1, 3) {
                // omit this and all later defaulted positional parameters unless passed by name
                named_from = Some(i);
                break;
            }
            let e = if i == 0 && f.recursive_depth {
                self.small_int_lit(0, 6)
            } else {
                let e = self.expr(t, d, fl || !t.is_sized());
                if t.is_sized() {
                    fl = false;
                }
                e
            };
            if self.ch.chance(1, 5) && !f.recursive_depth {
                // pass this and all later positional-or-keyword ones by name
                args.push(format!("{name}={e}"));
                for (name2, t2, def2) in f.params.iter().take(k).skip(i + 1) {
                    if def2.is_some() && self.ch.bool() {
                        continue;
                    }
                    let e2 = self.expr(t2, d, fl || !t2.is_sized());
                    if t2.is_sized() {
                        fl = false;
                    }
                    args.push(format!("{name2}={e2}"));
                }
                self.label("named_args");
                all_named = true;
                break;
            }
            args.push(e);
        }
        if !all_named {
            if let Some(from) = named_from {
                for (name, t, def) in f.params.iter().take(k).skip(from + 1) {
                    if def.is_none() || self.ch.bool() {
                        let e = self.expr(t, d, fl || !t.is_sized());
                        if t.is_sized() {
                            fl = false;
                        }
                        args.push(format!("{name}={e}"));
                    }
                }
                self.label("default_args");
            } else if let Some(t) = &f.star_args {
                let n = self.ch.idx(3);
                for _ in 0..n {
                    args.push(self.expr(t, d, false));
                }
            }
        }
        // keyword-only parameters: always by name; defaulted ones may be left out
        for (name, t, def) in f.params.iter().skip(k) {
            if def.is_some() && self.ch.bool() {
                continue;
            }
            let e = self.expr(t, d, fl || !t.is_sized());
            if t.is_sized() {
                fl = false;
            }
            args.push(format!("{name}={e}"));
            self.label("kwonly_args");
        }
        format!("{}({})", callee(&f.name), args.join(", "))
    }

    fn list_compr(&mut self, t: &Ty, d: u32, flow: bool) -> String {
        self.label("compr");
        let src_t = match self.ch.below(3) {
            0 => Ty::Int,
            1 => Ty::Str,
            _ => t.clone(),
        };
        let it = self.fresh("i");
        let src = if src_t == Ty::Int && self.ch.bool() { format!("range({})", self.small_int_lit(0, 5)) } else { self.expr(&Ty::List(Box::new(src_t.clone())), d, flow) };
        // the first iterable is evaluated in the enclosing scope; the rest see the loop variable
        self.scope().vars.push(Var { name: it.clone(), ty: src_t.clone(), group: 0, own: false });
        let mut clauses = format!("for {it} in {src}");
        let mut extra: Vec<String> = Vec::new();
        if self.ch.chance(1, 4) {
            self.label("compr_multi");
            let it2 = self.fresh("j");
            let n = self.small_int_lit(0, 3);
            clauses.push_str(&format!(" for {it2} in range({n})"));
            self.scope().vars.push(Var { name: it2.clone(), ty: Ty::Int, group: 0, own: false });
            extra.push(it2);
        }
        if self.ch.chance(1, 3) {
            let c = self.expr(&Ty::Bool, d + 1, true);
            clauses.push_str(&format!(" if {c}"));
        }
        // element: may use the loop variable; other sized variables are not allowed (linear flow)
        let elem = if *t == src_t && self.ch.bool() { it.clone() } else { self.expr(t, d + 1, false) };
        let elem = if self.ch.chance(1, 8) && self.o.profile == Profile::Shared {
            // closure capturing the comprehension variable, called immediately
            self.label("compr_capture");
            format!("(lambda: {elem})()")
        } else {
            elem
        };
        self.scope().vars.retain(|x| x.name != it && !extra.contains(&x.name));
        format!("[{elem} {clauses}]")
    }
}

// -------------------------------------------------------------------------------------------
// Statements

impl<'a, 'c> Gen<'a, 'c> {
    fn marker(&mut self) {
        if self.o.markers {
            self.marker += 1;
            let m = self.marker;
            self.line(&format!("emit({})", 1000 + m));
        }
    }

    fn add_var(&mut self, name: String, ty: Ty, group: u32, own: bool) {
        let s = self.scope();
        if let Some(v) = s.vars.iter_mut().find(|v| v.name == name) {
            v.ty = ty;
            v.group = group;
            v.own = own;
        } else {
            s.vars.push(Var { name, ty, group, own });
        }
    }

    fn locked(&self, group: u32) -> bool {
        let any_lock = self.scopes.iter().any(|s| !s.locked.is_empty());
        if !any_lock {
            return false;
        }
        // group 0 = may alias anything
        group == 0 || self.scopes.iter().any(|s| s.locked.contains(&group) || s.locked.contains(&0))
    }

    /// Variables of the current scope that may be mutated in place right now.
    fn mutable_vars(&self) -> Vec<Var> {
        let s = self.scopes.last().unwrap();
        s.vars.iter().filter(|v| v.own && v.ty.is_container() && !matches!(v.ty, Ty::Tuple(_)) && !self.locked(v.group)).cloned().collect()
    }

    pub fn block(&mut self, n: usize) {
        let mut produced = 0;
        for _ in 0..n {
            if self.stmts_left == 0 {
                break;
            }
            self.stmts_left -= 1;
            self.stmt();
            produced += 1;
        }
        if produced == 0 {
            self.line("pass");
        }
    }

    fn should_inject(&mut self) -> bool {
        if let Some(at) = self.inject_at {
            if !self.injected && self.stmts_left <= at {
                self.injected = true;
                return true;
            }
        }
        false
    }

    fn stmt(&mut self) {
        if self.should_inject() {
            self.inject_failure();
            return;
        }
        let in_def = self.scopes.last().unwrap().kind == ScopeKind::Def;
        let in_loop = self.scopes.last().unwrap().loop_depth > 0;
        let w = [10, 6, 5, 6, 5, 4, 4, 4, if in_def { 3 } else { 0 }, if in_loop { 2 } else { 0 }, 3];
        match self.ch.weighted(&w) {
            0 => self.stmt_assign_new(),
            1 => self.stmt_emit(),
            2 => self.stmt_reassign(),
            3 => {
                if self.o.no_mutation {
                    self.stmt_assign_new()
                } else {
                    self.stmt_mutate()
                }
            }
            4 => self.stmt_if(),
            5 => self.stmt_for(),
            6 => {
                if self.o.inline_probes && self.scopes.len() == 1 && self.indent == 0 && self.ch.chance(1, 2) {
                    self.stmt_inline_probe()
                } else {
                    self.stmt_def()
                }
            }
            7 => {
                if self.o.no_mutation {
                    self.stmt_emit()
                } else {
                    self.stmt_augassign()
                }
            }
            8 => self.stmt_return(),
            9 => {
                let c = self.expr(&Ty::Bool, 2, true);
                let kw = *self.ch.pick(&["break", "continue"]);
                self.label("break_continue");
                self.line(&format!("if {c}:"));
                self.indent += 1;
                self.line(kw);
                self.indent -= 1;
            }
            _ => {
                if self.full() && self.ch.chance(1, 3) {
                    self.stmt_const_if()
                } else {
                    self.stmt_unpack()
                }
            }
        }
    }

    fn stmt_assign_new(&mut self) {
        let ty = self.gen_ty(0);
        let e = self.expr(&ty, 0, true);
        let name = self.fresh("v");
        // value may alias an existing variable when the expression is a bare variable reference
        let bare = self.scopes.iter().flat_map(|s| s.vars.iter()).find(|v| v.name == e).cloned();
        let (group, own) = match bare {
            Some(v) => (v.group, v.own),
            None => {
                if ty.is_container() && self.expr_may_alias(&e) { (0, false) } else { (self.fresh_group(), true) }
            }
        };
        if self.o.annotate && self.ch.chance(1, 3) {
            self.label("annotated_assign");
            self.line(&format!("{name}: {} = {e}", ty_src(&ty)));
        } else {
            self.line(&format!("{name} = {e}"));
        }
        self.add_var(name, ty, group, own);
    }

    /// Conservative: an expression yields a fresh container unless it can return (part of) an
    /// existing one: indexing, .get, function calls, conditional expressions, emit/opaque wrappers.
    fn expr_may_alias(&self, e: &str) -> bool {
        let e = e.trim();
        !(e.starts_with('[') && e.ends_with(']') && !e.contains("][") || e.starts_with('{') || e.starts_with(&format!("{F_OPEN}list{F_CLOSE}(")) || e.starts_with(&format!("{F_OPEN}sorted{F_CLOSE}(")) || e.starts_with(&format!("{F_OPEN}dict{F_CLOSE}(")))
    }

    fn stmt_emit(&mut self) {
        let ty = self.gen_ty(0);
        let e = self.expr(&ty, 0, true);
        self.line(&format!("emit({e})"));
    }

    fn stmt_reassign(&mut self) {
        let vars: Vec<Var> = self.scopes.last().unwrap().vars.iter().filter(|v| !v.name.starts_with('i') && !v.name.starts_with('j')).cloned().collect();
        if vars.is_empty() {
            return self.stmt_assign_new();
        }
        let v = vars[self.ch.idx(vars.len())].clone();
        let e = self.expr(&v.ty, 0, true);
        let bare = self.scopes.iter().flat_map(|s| s.vars.iter()).find(|x| x.name == e).cloned();
        let (group, own) = match bare {
            Some(b) => (b.group, b.own),
            None => {
                if v.ty.is_container() && self.expr_may_alias(&e) { (0, false) } else { (self.fresh_group(), true) }
            }
        };
        self.label("rebind");
        self.line(&format!("{} = {e}", v.name));
        self.add_var(v.name, v.ty, group, own);
    }

    fn stmt_augassign(&mut self) {
        let vars: Vec<Var> = self
            .scopes
            .last()
            .unwrap()
            .vars
            .iter()
            .filter(|v| !v.name.starts_with('i') && !v.name.starts_with('j'))
            .filter(|v| matches!(v.ty, Ty::Int | Ty::Str) || (matches!(v.ty, Ty::List(_)) && v.own && !self.locked(v.group)) || matches!(v.ty, Ty::Tuple(_)))
            .cloned()
            .collect();
        if vars.is_empty() {
            return self.stmt_assign_new();
        }
        let v = vars[self.ch.idx(vars.len())].clone();
        self.label("augassign");
        match &v.ty {
            Ty::Int => {
                let op = *self.ch.pick(&["+=", "-=", "+=", "|=", "&=", "^="]);
                let e = self.expr(&Ty::Int, 1, true);
                self.line(&format!("{} {op} {e}", v.name));
            }
            Ty::Str => {
                let e = self.expr(&Ty::Str, 1, false);
                self.line(&format!("{} += {e}", v.name));
            }
            Ty::List(_) => {
                // in-place extend with a variable-free value
                let e = self.fresh_expr(&v.ty, 1);
                self.line(&format!("{} += {e}", v.name));
            }
            Ty::Tuple(_) => {
                // rebinding; type changes (longer tuple) so drop the variable's static type: use a fresh name instead
                let e = self.fresh_expr(&v.ty, 1);
                let name = self.fresh("v");
                self.line(&format!("{name} = {} + {e}", v.name));
                if let Ty::Tuple(ts) = &v.ty {
                    let mut t2 = ts.clone();
                    t2.extend(ts.clone());
                    let g = self.fresh_group();
                    self.add_var(name, Ty::Tuple(t2), g, true);
                }
            }
            _ => {}
        }
    }

    fn stmt_mutate(&mut self) {
        let vars = self.mutable_vars();
        if vars.is_empty() {
            return self.stmt_assign_new();
        }
        let v = vars[self.ch.idx(vars.len())].clone();
        self.label("mutation");
        match &v.ty {
            Ty::List(t) => {
                let t = (**t).clone();
                match self.ch.below(8) {
                    0 | 1 => {
                        let e = self.expr(&t, 1, false);
                        self.line(&format!("{}.append({e})", v.name));
                    }
                    2 => {
                        let e = self.fresh_expr(&v.ty, 1);
                        self.line(&format!("{}.extend({e})", v.name));
                    }
                    3 => {
                        let i = self.small_int_lit(-4, 6);
                        let e = self.expr(&t, 1, false);
                        self.line(&format!("{}.insert({i}, {e})", v.name));
                    }
                    4 => {
                        // pop guarded by a preceding append (never empty)
                        let e = self.fresh_expr(&t, 2);
                        self.line(&format!("{}.append({e})", v.name));
                        // negative pop indices are documented to fail in Starlark: outside the shared core
                        let i = if self.ch.bool() { String::new() } else { self.small_int_lit(0, 0) };
                        self.line(&format!("emit({}.pop({i}))", v.name));
                    }
                    5 => {
                        let e = self.fresh_expr(&t, 2);
                        self.line(&format!("{}.append({e})", v.name));
                        let i = self.small_int_lit(-1, 0);
                        let e2 = self.expr(&t, 1, false);
                        self.line(&format!("{}[{i}] = {e2}", v.name));
                    }
                    6 => {
                        if self.ch.chance(1, 4) {
                            self.line(&format!("{}.clear()", v.name));
                        } else if t == Ty::Int {
                            // x[i] += e on a guarded index
                            self.line(&format!("{}.append({})", v.name, konst("1".into())));
                            let e = self.expr(&Ty::Int, 1, true);
                            self.line(&format!("{}[{}] += {e}", v.name, konst("(-1)".into())));
                        } else {
                            let e = self.expr(&t, 1, false);
                            self.line(&format!("{}.append({e})", v.name));
                        }
                    }
                    _ => {
                        // remove an element that is guaranteed present
                        let e = self.fresh_expr(&t, 2);
                        if t.is_container() || e.contains("emit(") {
                            self.line(&format!("{}.append({e})", v.name));
                        } else {
                            self.line(&format!("{}.append({e})", v.name));
                            self.line(&format!("{}.remove({e})", v.name));
                        }
                    }
                }
            }
            Ty::Dict(k, val) => {
                let (k, val) = ((**k).clone(), (**val).clone());
                match self.ch.below(6) {
                    0 | 1 => {
                        let ke = self.expr(&k, 1, true);
                        let ve = self.expr(&val, 1, false);
                        self.line(&format!("{}[{ke}] = {ve}", v.name));
                    }
                    2 => {
                        let ke = self.expr(&k, 1, true);
                        let ve = self.fresh_expr(&val, 2);
                        self.line(&format!("emit({}.pop({ke}, {ve}))", v.name));
                    }
                    3 => {
                        let ke = self.expr(&k, 1, true);
                        let ve = self.fresh_expr(&val, 2);
                        self.line(&format!("emit({}.setdefault({ke}, {ve}))", v.name));
                    }
                    4 => {
                        let e = self.fresh_expr(&v.ty, 1);
                        if k == Ty::Str && self.ch.bool() {
                            let ve = self.fresh_expr(&val, 2);
                            self.line(&format!("{}.update({e}, kw={ve})", v.name));
                        } else {
                            self.line(&format!("{}.update({e})", v.name));
                        }
                    }
                    _ => {
                        if self.ch.chance(1, 3) {
                            self.line(&format!("{}.clear()", v.name));
                        } else {
                            let ke = self.expr(&k, 1, true);
                            let ve = self.expr(&val, 1, false);
                            self.line(&format!("{}[{ke}] = {ve}", v.name));
                        }
                    }
                }
            }
            _ => {}
        }
    }

    fn with_block(&mut self, n: usize) {
        self.indent += 1;
        let saved: Vec<(usize, usize)> = self.scopes.iter().map(|s| (s.vars.len(), s.funcs.len())).collect();
        self.block(n);
        // Variables first assigned inside a conditional/loop body are not definitely assigned afterwards.
        for (s, (nv, nf)) in self.scopes.iter_mut().zip(saved) {
            s.vars.truncate(nv);
            s.funcs.truncate(nf);
        }
        self.indent -= 1;
    }

    fn body_len(&mut self) -> usize {
        1 + self.ch.idx(3)
    }

    /// Rebinding inside a conditional/loop body may change alias groups: afterwards treat every
    /// container variable rebound in the body conservatively (group 0, not own).
    fn conservative_after_body(&mut self, before: &[Var]) {
        let s = self.scope();
        for v in s.vars.iter_mut() {
            if let Some(b) = before.iter().find(|b| b.name == v.name) {
                if b.group != v.group || b.own != v.own {
                    v.group = 0;
                    v.own = false;
                }
            }
        }
    }

    fn stmt_if(&mut self) {
        self.label("if");
        let c = self.expr(&Ty::Bool, 1, true);
        let before = self.scopes.last().unwrap().vars.clone();
        self.line(&format!("if {c}:"));
        let n = self.body_len();
        self.with_block(n);
        let after_then = self.scopes.last().unwrap().vars.clone();
        if self.ch.chance(1, 3) {
            let c2 = self.expr(&Ty::Bool, 1, true);
            self.line(&format!("elif {c2}:"));
            let n = self.body_len();
            self.with_block(n);
        }
        if self.ch.bool() {
            self.line("else:");
            let n = self.body_len();
            self.with_block(n);
        }
        self.conservative_after_body(&before);
        self.conservative_after_body(&after_then);
    }

    fn stmt_for(&mut self) {
        if self.scopes.last().unwrap().loop_depth >= 2 {
            return self.stmt_emit();
        }
        self.label("for");
        let before = self.scopes.last().unwrap().vars.clone();
        let it = self.fresh("i");
        let mut lock: Option<u32> = None;
        let (header, vars): (String, Vec<(String, Ty)>) = match self.ch.below(6) {
            0 => {
                let n = self.small_int_lit(0, 5);
                (format!("for {it} in range({n}):"), vec![(it.clone(), Ty::Int)])
            }
            1 | 2 => {
                // iterate a list variable directly (locks its alias group)
                let t = if self.ch.bool() { Ty::Int } else { self.gen_ty(1) };
                let lt = Ty::List(Box::new(t.clone()));
                if let Some(v) = self.pick_var(&lt) {
                    lock = Some(v.group);
                    (format!("for {it} in {}:", v.name), vec![(it.clone(), t)])
                } else {
                    let e = self.expr(&lt, 1, true);
                    lock = self.lock_for_iterable(&e);
                    (format!("for {it} in {e}:"), vec![(it.clone(), t)])
                }
            }
            3 => {
                let kt = if self.ch.bool() { Ty::Str } else { Ty::Int };
                let vt = self.gen_ty(1);
                let dt = Ty::Dict(Box::new(kt.clone()), Box::new(vt.clone()));
                if let Some(v) = self.pick_var(&dt) {
                    lock = Some(v.group);
                    if self.ch.bool() {
                        (format!("for {it} in {}:", v.name), vec![(it.clone(), kt)])
                    } else {
                        let it2 = self.fresh("j");
                        self.label("for_unpack");
                        (format!("for {it}, {it2} in {}.items():", v.name), vec![(it.clone(), kt), (it2, vt)])
                    }
                } else {
                    let n = self.small_int_lit(0, 4);
                    (format!("for {it} in range({n}):"), vec![(it.clone(), Ty::Int)])
                }
            }
            4 => {
                let t = self.gen_ty(1);
                let e = self.expr(&Ty::List(Box::new(t.clone())), 1, true);
                lock = self.lock_for_iterable(&e);
                let it2 = self.fresh("j");
                self.label("for_unpack");
                (format!("for {it}, {it2} in enumerate({e}):"), vec![(it.clone(), Ty::Int), (it2, t)])
            }
            _ => {
                let t = self.gen_ty(1);
                let e = self.expr(&Ty::List(Box::new(t.clone())), 1, true);
                lock = self.lock_for_iterable(&e);
                (format!("for {it} in {e}:"), vec![(it.clone(), t)])
            }
        };
        self.line(&header);
        let s = self.scope();
        s.loop_depth += 1;
        if let Some(g) = lock {
            s.locked.push(g);
        }
        for (n, t) in &vars {
            // loop variables are elements of the iterated value: may alias (group 0), not own
            self.add_var(n.clone(), t.clone(), 0, false);
        }
        // with_block truncates vars to the length before the body, which keeps the loop variables out
        let keep: Vec<String> = vars.iter().map(|x| x.0.clone()).collect();
        let n = self.body_len();
        self.indent += 1;
        let saved: Vec<(usize, usize)> = self.scopes.iter().map(|s| (s.vars.len(), s.funcs.len())).collect();
        self.block(n);
        for (s, (nv, nf)) in self.scopes.iter_mut().zip(saved) {
            s.vars.truncate(nv);
            s.funcs.truncate(nf);
        }
        self.indent -= 1;
        let s = self.scope();
        s.loop_depth -= 1;
        if lock.is_some() {
            s.locked.pop();
        }
        // loop variables are not definitely assigned after the loop (zero iterations)
        s.vars.retain(|v| !keep.contains(&v.name));
        self.conservative_after_body(&before);
    }

    /// Which alias group an iterable expression locks: a bare variable locks its group, a provably
    /// fresh value nothing, anything else everything (group 0).
    fn lock_for_iterable(&self, e: &str) -> Option<u32> {
        if let Some(v) = self.scopes.iter().flat_map(|s| s.vars.iter()).find(|v| v.name == e) {
            return Some(v.group);
        }
        if self.expr_may_alias(e) { Some(0) } else { None }
    }

    fn stmt_unpack(&mut self) {
        self.label("unpack");
        let n = 2 + self.ch.idx(2);
        if self.ch.chance(1, 5) {
            // unpacking iterates: a dict yields its keys, a list its elements (source sizes match the pattern)
            let from_dict = self.ch.bool();
            let names: Vec<String> = (0..n).map(|_| self.fresh("v")).collect();
            let lhs = match self.ch.below(3) {
                0 => names.join(", "),
                1 => format!("({})", names.join(", ")),
                _ => format!("[{}]", names.join(", ")),
            };
            if from_dict {
                self.label("unpack_dict");
                let items: Vec<String> = (0..n).map(|i| format!("\"u{i}\": {}", self.small_int_lit(0, 9))).collect();
                self.line(&format!("{lhs} = {{{}}}", items.join(", ")));
                for nm in names {
                    self.add_var(nm, Ty::Str, 0, false);
                }
            } else {
                self.label("unpack_list");
                let items: Vec<String> = (0..n).map(|_| self.small_int_lit(0, 9)).collect();
                self.line(&format!("{lhs} = [{}]", items.join(", ")));
                for nm in names {
                    self.add_var(nm, Ty::Int, 0, false);
                }
            }
            return;
        }
        let tys: Vec<Ty> = (0..n).map(|_| self.gen_ty(1)).collect();
        let tt = Ty::Tuple(tys.clone());
        let e = self.expr(&tt, 1, true);
        let names: Vec<String> = (0..n).map(|_| self.fresh("v")).collect();
        let lhs = match self.ch.below(3) {
            0 => names.join(", "),
            1 => format!("({})", names.join(", ")),
            _ => format!("[{}]", names.join(", ")),
        };
        self.line(&format!("{lhs} = {e}"));
        for (nm, t) in names.into_iter().zip(tys) {
            self.add_var(nm, t, 0, false);
        }
    }

    fn stmt_return(&mut self) {
        let ret = self.scopes.last().unwrap().ret.clone();
        if let Some(t) = ret {
            let c = self.expr(&Ty::Bool, 2, true);
            let e = self.expr(&t, 1, true);
            self.label("early_return");
            self.line(&format!("if {c}:"));
            self.indent += 1;
            self.line(&format!("return {e}"));
            self.indent -= 1;
        } else {
            self.stmt_emit();
        }
    }

    /// `def f(p, q): return <expr over p, q and constants>` — the shape the optimiser inlines.
    fn stmt_tiny_def(&mut self) {
        self.label("tiny_def");
        let name = self.fresh("f");
        let np = self.ch.idx(3);
        let ret = if self.ch.bool() { Ty::Int } else { self.gen_ty(1) };
        let mut params: Vec<(String, Ty, Option<String>)> = Vec::new();
        for _ in 0..np {
            let t = if self.ch.bool() { ret.clone() } else { self.gen_ty(1) };
            params.push((self.fresh("p"), t, None));
        }
        let sig: Vec<String> = params.iter().map(|p| p.0.clone()).collect();
        self.line(&format!("def {name}({}):", sig.join(", ")));
        let mut scope = Scope { kind: ScopeKind::Def, vars: Vec::new(), funcs: Vec::new(), locked: Vec::new(), loop_depth: 0, ret: Some(ret.clone()) };
        for (n, t, _) in &params {
            scope.vars.push(Var { name: n.clone(), ty: t.clone(), group: 0, own: false });
        }
        // only parameters and constants are visible in the body
        let saved = std::mem::replace(&mut self.scopes, vec![scope]);
        self.indent += 1;
        let e = self.expr(&ret, 1, true);
        self.line(&format!("return {e}"));
        self.indent -= 1;
        self.scopes = saved;
        let f = Func { name, params, ret: ret.clone(), star_args: None, recursive_depth: false, kwonly_from: None };
        self.scope().funcs.push(f.clone());
        let ncalls = 1 + self.ch.idx(2);
        for _ in 0..ncalls {
            // arguments: constants (inlining candidates) or arbitrary expressions
            let args: Vec<String> = f.params.iter().map(|(_, t, _)| if self.ch.bool() { self.fresh_expr(t, 2) } else { self.expr(t, 2, !t.is_sized()) }).collect();
            self.label("call");
            self.line(&format!("emit({}({}))", callee(&f.name), args.join(", ")));
        }
    }

    /// Optimiser-shaped def under an arbitrary signature, called with well- and ill-formed argument lists: the bodies
    /// are the shapes `def_inline.rs` recognises (`return type(p) == "T"`, a return of an expression over parameters and
    /// constants, an empty body); whether a call binds, and to what, must not depend on whether the callee is visible.
    fn stmt_inline_probe(&mut self) {
        self.label("inline_probe");
        self.label("call");
        let name = self.fresh("f");
        let np = 1 + self.ch.idx(3);
        let names: Vec<String> = (0..np).map(|_| self.fresh("p")).collect();
        // markers: `/` after position a (a >= 1), bare `*` before position b, defaults on a suffix, *args, **kwargs
        let slash_after = if self.ch.chance(1, 4) { Some(1 + self.ch.idx(np)) } else { None };
        let star_before = if self.ch.chance(1, 3) { Some(self.ch.idx(np)) } else { None };
        let star_before = match (slash_after, star_before) {
            (Some(a), Some(b)) if b < a => Some(a),
            (_, b) => b,
        };
        let use_star_args = star_before.is_some() && self.ch.chance(1, 3);
        let defaults_from = if self.ch.chance(1, 3) { self.ch.idx(np + 1) } else { np };
        let kwargs = self.ch.chance(1, 6);
        let mut sig: Vec<String> = Vec::new();
        for (i, n) in names.iter().enumerate() {
            if star_before == Some(i) {
                sig.push(if use_star_args { "*rest".to_owned() } else { "*".to_owned() });
            }
            // a parameter after `*` may have a default independently of the others
            let kwonly = star_before.map(|b| i >= b).unwrap_or(false);
            if i >= defaults_from || (kwonly && self.ch.chance(1, 3)) {
                sig.push(format!("{n} = {}", 100 + i));
            } else if i > defaults_from {
                sig.push(format!("{n} = {}", 100 + i));
            } else {
                sig.push(n.clone());
            }
            if slash_after == Some(i + 1) {
                sig.push("/".to_owned());
            }
        }
        if star_before == Some(np) && np > 0 {
            if use_star_args {
                sig.push("*rest".to_owned());
            }
        }
        if kwargs {
            sig.push("**kw".to_owned());
        }
        // positional parameters with a default may not be followed by one without
        let mut seen_default = false;
        for (i, s) in sig.clone().iter().enumerate() {
            if s.starts_with('*') {
                break;
            }
            if s == "/" {
                continue;
            }
            if s.contains(" = ") {
                seen_default = true;
            } else if seen_default {
                sig[i] = format!("{s} = 9{i}");
            }
        }
        self.line(&format!("def {name}({}):", sig.join(", ")));
        let p0 = names[0].clone();
        let pl = names.last().unwrap().clone();
        let all = names.join(", ");
        let body = match self.ch.below(12) {
            0 | 1 => format!("return type({p0}) == \"int\""),
            2 => format!("return type({p0}) == \"string\""),
            3 => format!("return {p0}"),
            4 => format!("return ({all},)"),
            5 => format!("return [{pl}, 7]"),
            6 => format!("return {p0} + 1"),
            7 => format!("return {pl} if {p0} else 0"),
            8 => "pass".to_owned(),
            9 => format!("return \"%s|%s\" % ({p0}, {pl})"),
            10 => format!("return {{\"k\": {p0}}}"),
            _ => format!("return {p0}[0]"),
        };
        self.indent += 1;
        self.line(&body);
        self.indent -= 1;
        let ncalls = 1 + self.ch.idx(3);
        for _ in 0..ncalls {
            let mut args: Vec<String> = Vec::new();
            let npos = self.ch.idx(np + 2);
            for i in 0..npos {
                args.push(konst(format!("{}", 1 + i)));
            }
            // named arguments: a subset of the parameter names (possibly already filled) and sometimes a foreign name
            for (i, n) in names.iter().enumerate() {
                if self.ch.chance(1, 3) {
                    args.push(format!("{n} = {}", konst(format!("{}", 11 + i))));
                }
            }
            if self.ch.chance(1, 8) {
                args.push(format!("zz = {}", konst("55".to_owned())));
            }
            if self.ch.chance(1, 6) {
                args.push(format!("*{}", konst(format!("[{}]", ["", "21", "21, 22"][self.ch.idx(3)]))));
            }
            if self.ch.chance(1, 6) {
                let k = if self.ch.bool() { pl.clone() } else { "zk".to_owned() };
                args.push(format!("**{}", konst(format!("{{\"{k}\": 31}}"))));
            }
            let call = format!("{}({})", callee(&name), args.join(", "));
            if self.ch.chance(1, 4) {
                self.line(&format!("emit({call})"));
            } else {
                self.line(&format!("emit(catch(lambda: {call}))"));
            }
        }
    }

    /// `if <constant condition>:` — dead-branch removal target.
    fn stmt_const_if(&mut self) {
        self.label("const_if");
        let c = konst((*self.ch.pick(&["True", "False", "1 == 1", "not True", "0", "\"\"", "[]", "1 < 2", "None"])).to_owned());
        self.line(&format!("if {c}:"));
        let n = self.body_len();
        self.with_block(n);
        if self.ch.bool() {
            self.line("else:");
            let n = self.body_len();
            self.with_block(n);
        }
    }

    fn stmt_def(&mut self) {
        if self.scopes.len() >= 3 || self.indent >= 4 {
            return self.stmt_emit();
        }
        if self.full() && self.ch.chance(1, 3) {
            return self.stmt_tiny_def();
        }
        self.label("def");
        let name = self.fresh("f");
        let ret = self.gen_ty(0);
        let recursive = self.ch.chance(1, 5);
        let np = self.ch.idx(4);
        let mut params: Vec<(String, Ty, Option<String>)> = Vec::new();
        if recursive {
            params.push((self.fresh("p"), Ty::Int, None));
        }
        let mut need_default = false;
        for _ in 0..np {
            let t = self.gen_ty(1);
            let def = if need_default || self.ch.chance(1, 3) {
                need_default = true;
                // default evaluated at def time in the enclosing scope (may read enclosing variables)
                let e = if t.is_container() { self.fresh_expr(&t, 2) } else { self.expr(&t, 2, true) };
                Some(e)
            } else {
                None
            };
            params.push((self.fresh("p"), t, def));
        }
        let star = if !need_default && !recursive && !self.o.no_mutation && self.ch.chance(1, 6) { Some(if self.ch.bool() { Ty::Int } else { Ty::Str }) } else { None };
        let annotate = self.o.annotate && self.ch.chance(2, 3);
        let mut sig: Vec<String> = params
            .iter()
            .map(|(n, t, d)| {
                let n = if annotate { format!("{n}: {}", ty_src(t)) } else { n.clone() };
                match d {
                    Some(d) => format!("{n} = {d}"),
                    None => n,
                }
            })
            .collect();
        let star_name = self.fresh("a");
        if star.is_some() {
            sig.push(format!("*{star_name}"));
            self.label("star_args");
        }
        // bare `*`: the parameters after it are keyword-only
        let first_plain = if recursive { 1 } else { 0 };
        let kwonly_from = if star.is_none() && params.len() > first_plain && self.ch.chance(1, 4) {
            let at = first_plain + self.ch.idx(params.len() - first_plain);
            sig.insert(at, "*".to_owned());
            self.label("kwonly_params");
            Some(at)
        } else {
            None
        };
        if params.iter().any(|p| p.2.is_some()) {
            self.label("defaults");
        }
        if annotate {
            self.label("annotated_def");
            self.line(&format!("def {name}({}) -> {}:", sig.join(", "), ty_src(&ret)));
        } else {
            self.line(&format!("def {name}({}):", sig.join(", ")));
        }
        let f = Func { name: name.clone(), params: params.clone(), ret: ret.clone(), star_args: star.clone(), recursive_depth: recursive, kwonly_from };
        // body
        let mut scope = Scope { kind: ScopeKind::Def, vars: Vec::new(), funcs: Vec::new(), locked: Vec::new(), loop_depth: 0, ret: Some(ret.clone()) };
        for (n, t, _) in &params {
            scope.vars.push(Var { name: n.clone(), ty: t.clone(), group: 0, own: false });
        }
        if let Some(t) = &star {
            scope.vars.push(Var { name: star_name.clone(), ty: Ty::List(Box::new(t.clone())), group: 0, own: false });
        }
        if self.scopes.len() >= 2 {
            self.label("closure");
        }
        self.scopes.push(scope);
        self.indent += 1;
        if star.is_some() {
            // *args is a tuple: convert so that the declared list type is honest
            self.line(&format!("{star_name} = list({star_name})"));
        }
        if recursive {
            self.label("recursion");
            let d = params[0].0.clone();
            let base = self.expr(&ret, 1, true);
            self.line(&format!("if {d} <= 0:"));
            self.indent += 1;
            self.line(&format!("return {base}"));
            self.indent -= 1;
            // recursive call with the other parameters passed through
            let rest: Vec<String> = params.iter().enumerate().skip(1).map(|(i, p)| if kwonly_from.map(|k| i >= k).unwrap_or(false) { format!("{0}={0}", p.0) } else { p.0.clone() }).collect();
            let mut args = vec![format!("{d} - 1")];
            args.extend(rest);
            let r = self.fresh("v");
            self.line(&format!("{r} = {name}({})", args.join(", ")));
            self.add_var(r, ret.clone(), 0, false);
        }
        let n = 1 + self.ch.idx(4);
        self.block(n);
        let e = self.expr(&ret, 0, true);
        self.line(&format!("return {e}"));
        self.indent -= 1;
        self.scopes.pop();
        self.scope().funcs.push(f.clone());
        // call it right away (most generated functions would otherwise never run)
        let ncalls = self.ch.weighted(&[2, 5, 3]);
        for _ in 0..ncalls {
            let c = self.call_of(&f, 1, true);
            self.label("call");
            if self.ch.bool() || f.ret == Ty::None {
                self.line(&format!("emit({c})"));
            } else {
                let name = self.fresh("v");
                self.line(&format!("{name} = {c}"));
                self.add_var(name, f.ret.clone(), 0, false);
            }
        }
    }

    fn inject_failure(&mut self) {
        self.label("injected_failure");
        let kind = self.ch.below(15);
        if kind >= 12 {
            // read of a variable that is only assigned on a path that is not taken; optionally passed
            // straight to a one-parameter function (inlining candidate)
            let u = self.fresh("u");
            let cond = format!("{}({}) > {}", callee("len"), konst("[]".into()), konst("0".into()));
            self.line(&format!("if {cond}:"));
            self.indent += 1;
            let e = self.fresh_expr(&Ty::Int, 2);
            self.line(&format!("{u} = {e}"));
            self.indent -= 1;
            let fs: Vec<Func> = self.scopes.iter().flat_map(|s| s.funcs.iter()).filter(|f| f.params.len() == 1 && f.params[0].1 == Ty::Int && !f.recursive_depth && f.kwonly_from.is_none()).cloned().collect();
            if kind == 14 && !fs.is_empty() {
                let f = fs[self.ch.idx(fs.len())].clone();
                self.label("unassigned_to_call");
                self.line(&format!("emit({}({u}))", callee(&f.name)));
            } else {
                self.line(&format!("emit({u})"));
            }
            self.label("unassigned_read");
            return;
        }
        let s = match kind {
            0 => format!("emit([1, 2, 3][{}])", self.small_int_lit(3, 9)),
            1 => "emit({\"a\": 1}[\"b\"])".to_owned(),
            2 => {
                let a = self.expr(&Ty::Int, 2, true);
                format!("emit({a} // {})", konst("0".into()))
            }
            3 => {
                let a = self.expr(&Ty::Int, 2, true);
                format!("emit({a} % (1 - 1))")
            }
            4 => {
                let a = self.expr(&Ty::Int, 2, true);
                let b = self.expr(&Ty::Str, 2, true);
                format!("emit({a} + {b})")
            }
            5 => "emit((1)(2))".to_owned(),
            6 => "uu1, uu2 = (1, 2, 3)".to_owned(),
            7 => "emit(int(\"12x\"))".to_owned(),
            8 => format!("fail({})", konst(str_lit(self.ch.pick_s(&["boom", "é!", "x y"])))),
            9 => "emit([1, 2].index(3))".to_owned(),
            10 => format!("emit(1 << {})", konst("(-1)".into())),
            _ => "[1, 2].remove(5)".to_owned(),
        };
        self.line(&s);
    }

    /// Generate a whole program; returns the marked-up text. The last statement emits every
    /// definitely-assigned module-level variable (so that both placements expose the final state).
    pub fn program(&mut self) -> String {
        if self.ch.below(100) < self.o.fail_pct {
            let total = self.o.max_stmts;
            self.inject_at = Some(self.ch.idx(total.max(1)));
        }
        let n = 3 + self.ch.idx(self.o.max_stmts.saturating_sub(3).max(1));
        self.stmts_left = n;
        let mut count = 0;
        while self.stmts_left > 0 && count < n {
            self.stmts_left -= 1;
            count += 1;
            self.marker();
            self.stmt();
        }
        let names: Vec<String> = self.scopes[0].vars.iter().map(|v| v.name.clone()).collect();
        if !names.is_empty() {
            self.line(&format!("emit([{}])", names.join(", ")));
        }
        std::mem::take(&mut self.out)
    }
}

// -------------------------------------------------------------------------------------------
// Rendering of the marked-up text

/// Starlark type expression for a generator type (fixed-arity tuples use the tuple-of-types spelling).
pub fn ty_src(t: &Ty) -> String {
    match t {
        Ty::Int => "int".into(),
        Ty::Bool => "bool".into(),
        Ty::Str => "str".into(),
        Ty::None => "None".into(),
        Ty::List(t) => format!("list[{}]", ty_src(t)),
        Ty::Tuple(ts) if ts.len() == 1 => format!("({},)", ty_src(&ts[0])),
        Ty::Tuple(ts) => format!("({})", ts.iter().map(ty_src).collect::<Vec<_>>().join(", ")),
        Ty::Dict(k, v) => format!("dict[{}, {}]", ty_src(k), ty_src(v)),
    }
}

/// Plain rendering: markers removed.
pub fn render_plain(marked: &str) -> String {
    marked.chars().filter(|c| !matches!(*c, C_OPEN | C_CLOSE | F_OPEN | F_CLOSE)).collect()
}

/// Count of (constants, callees) markers.
pub fn count_markers(marked: &str) -> (usize, usize) {
    (marked.chars().filter(|c| *c == C_OPEN).count(), marked.chars().filter(|c| *c == F_OPEN).count())
}

/// Opacified rendering: the i-th constant / callee is wrapped in `opaque(..)` when `pick(i)` says so.
pub fn render_opaque(marked: &str, mut pick_const: impl FnMut(usize) -> bool, mut pick_callee: impl FnMut(usize) -> bool) -> String {
    let mut out = String::with_capacity(marked.len() + 64);
    let (mut ci, mut fi) = (0usize, 0usize);
    let mut stack: Vec<bool> = Vec::new();
    for c in marked.chars() {
        match c {
            C_OPEN => {
                let p = pick_const(ci);
                ci += 1;
                stack.push(p);
                if p {
                    out.push_str("opaque(");
                }
            }
            F_OPEN => {
                let p = pick_callee(fi);
                fi += 1;
                stack.push(p);
                if p {
                    out.push_str("opaque(");
                }
            }
            C_CLOSE | F_CLOSE => {
                if stack.pop() == Some(true) {
                    out.push(')');
                }
            }
            c => out.push(c),
        }
    }
    out
}

/// Wrap a module-level program into `def main(): ...; main()`.
pub fn wrap_in_def(plain: &str) -> String {
    let mut s = String::from("def main():\n");
    for l in plain.lines() {
        s.push_str("    ");
        s.push_str(l);
        s.push('\n');
    }
    s.push_str("    return None\nmain()\n");
    s
}
