//! Starlark-side helpers: harness natives (emit/opaque/catch/...), canonical value encoding,
//! transcripts, error classification, module evaluation helpers.

use std::cell::RefCell;
use std::collections::HashMap;
use std::sync::OnceLock;

use starlark::environment::FrozenModule;
use starlark::environment::Globals;
use starlark::environment::GlobalsBuilder;
use starlark::environment::LibraryExtension;
use starlark::environment::Module;
use starlark::eval::Evaluator;
use starlark::eval::ReturnFileLoader;
use starlark::starlark_module;
use starlark::syntax::AstModule;
use starlark::syntax::Dialect;
use starlark::values::FrozenHeapName;
use starlark::values::Heap;
use starlark::values::Value;
use starlark::values::ValueLike;
use starlark::values::dict::DictRef;
use starlark::values::float::StarlarkFloat;
use starlark::values::list::ListRef;
use starlark::values::none::NoneType;
use starlark::values::structs::StructRef;
use starlark::values::tuple::TupleRef;
use starlark::values::tuple::UnpackTuple;
use starlark::values::typing::StarlarkCallable;

thread_local! {
    static TX: RefCell<Vec<String>> = const { RefCell::new(Vec::new()) };
    static EMITS: std::cell::Cell<u64> = const { std::cell::Cell::new(0) };
}

pub fn tx_reset() {
    TX.with(|t| t.borrow_mut().clear());
    EMITS.with(|e| e.set(0));
}
pub fn tx_take() -> Vec<String> {
    TX.with(|t| std::mem::take(&mut *t.borrow_mut()))
}
pub fn tx_push(s: String) {
    TX.with(|t| t.borrow_mut().push(s));
}
pub fn tx_len() -> usize {
    TX.with(|t| t.borrow().len())
}
pub fn emit_count() -> u64 {
    EMITS.with(|e| e.get())
}

// ------------------------------------------------------------------------------------------
// Canonical encoding (sharing-insensitive, cycle-safe, allocation-free on Starlark heaps)

pub fn enc_str(s: &str, out: &mut String) {
    out.push('"');
    for c in s.chars() {
        match c {
            '\\' => out.push_str("\\\\"),
            '"' => out.push_str("\\\""),
            '\n' => out.push_str("\\n"),
            '\r' => out.push_str("\\r"),
            '\t' => out.push_str("\\t"),
            c if (c as u32) < 0x20 || (c as u32) > 0x7e => out.push_str(&format!("\\u{{{:x}}}", c as u32)),
            c => out.push(c),
        }
    }
    out.push('"');
}

pub fn encode(v: Value) -> String {
    let mut out = String::new();
    let mut stack = Vec::new();
    enc(v, &mut out, &mut stack);
    out
}

fn enc<'v>(v: Value<'v>, out: &mut String, stack: &mut Vec<Value<'v>>) {
    if out.len() > 200_000 {
        out.push_str("<too-long>");
        return;
    }
    if v.is_none() {
        out.push('N');
        return;
    }
    if let Some(b) = v.unpack_bool() {
        out.push(if b { 'T' } else { 'F' });
        return;
    }
    if let Some(s) = v.unpack_str() {
        enc_str(s, out);
        return;
    }
    let ty = v.get_type();
    match ty {
        "int" => {
            out.push_str(&v.to_str());
            return;
        }
        "float" => {
            if let Some(f) = v.downcast_ref::<StarlarkFloat>() {
                out.push_str(&format!("f{:016x}", f.0.to_bits()));
            } else {
                out.push_str("f?");
            }
            return;
        }
        _ => {}
    }
    if stack.iter().any(|s| s.ptr_eq(v)) {
        out.push_str("<cycle>");
        return;
    }
    if stack.len() > 60 {
        out.push_str("<deep>");
        return;
    }
    stack.push(v);
    if let Some(l) = ListRef::from_value(v) {
        out.push('[');
        for (i, x) in l.iter().enumerate() {
            if i > 0 {
                out.push(',');
            }
            enc(x, out, stack);
        }
        out.push(']');
    } else if let Some(t) = TupleRef::from_value(v) {
        out.push('(');
        for x in t.iter() {
            enc(x, out, stack);
            out.push(',');
        }
        out.push(')');
    } else if let Some(d) = DictRef::from_value(v) {
        let items: Vec<(Value, Value)> = d.iter().collect();
        drop(d);
        out.push('{');
        for (i, (k, x)) in items.into_iter().enumerate() {
            if i > 0 {
                out.push(',');
            }
            enc(k, out, stack);
            out.push(':');
            enc(x, out, stack);
        }
        out.push('}');
    } else if let Some(s) = StructRef::from_value(v) {
        out.push_str("struct(");
        for (k, x) in s.iter() {
            out.push_str(k.as_str());
            out.push('=');
            enc(x, out, stack);
            out.push(',');
        }
        out.push(')');
    } else {
        out.push_str("o:");
        out.push_str(ty);
        out.push(':');
        out.push_str(&v.to_repr());
    }
    stack.pop();
}

// ------------------------------------------------------------------------------------------
// Natives

#[starlark_module]
fn harness_natives(builder: &mut GlobalsBuilder) {
    /// Append the canonical encoding of `x` to the transcript; returns `x`.
    fn emit<'v>(#[starlark(require = pos)] x: Value<'v>) -> anyhow::Result<Value<'v>> {
        EMITS.with(|e| e.set(e.get() + 1));
        tx_push(encode(x));
        Ok(x)
    }

    /// Identity the optimiser cannot see through.
    fn opaque<'v>(#[starlark(require = pos)] x: Value<'v>) -> anyhow::Result<Value<'v>> {
        Ok(x)
    }

    /// `catch(f, *args)`: ("ok", result) or ("err", kind).
    fn catch<'v>(
        #[starlark(require = pos)] f: StarlarkCallable<'v>,
        #[starlark(args)] args: UnpackTuple<Value<'v>>,
        eval: &mut Evaluator<'v, '_, '_>,
    ) -> anyhow::Result<Value<'v>> {
        match eval.eval_function(f.0, &args.items, &[]) {
            Ok(v) => Ok(eval.heap().alloc(("ok", v))),
            Err(e) => {
                let kind = error_kind_name(&e);
                Ok(eval.heap().alloc(("err", kind)))
            }
        }
    }

    /// `mark(k, *values)`: records "M k enc(v1) enc(v2) ..." in the transcript.
    fn mark<'v>(#[starlark(require = pos)] k: Value<'v>, #[starlark(args)] args: UnpackTuple<Value<'v>>) -> anyhow::Result<NoneType> {
        let mut s = format!("M {}", k.to_str());
        for a in &args.items {
            s.push(' ');
            s.push_str(&encode(*a));
        }
        tx_push(s);
        Ok(NoneType)
    }

    /// `probe(k, x)`: records "P k enc(x)"; returns x.
    fn probe<'v>(#[starlark(require = pos)] k: Value<'v>, #[starlark(require = pos)] x: Value<'v>) -> anyhow::Result<Value<'v>> {
        tx_push(format!("P {} {}", k.to_str(), encode(x)));
        Ok(x)
    }
}

pub fn error_kind_name(e: &starlark::Error) -> &'static str {
    use starlark::ErrorKind::*;
    match e.kind() {
        Fail(_) => "Fail",
        StackOverflow(_) => "StackOverflow",
        Value(_) => "Value",
        Function(_) => "Function",
        Scope(_) => "Scope",
        Parser(_) => "Parser",
        Freeze(_) => "Freeze",
        Internal(_) => "Internal",
        Native(_) => "Native",
        Other(_) => "Other",
        _ => "Unknown",
    }
}

pub fn globals() -> &'static Globals {
    static G: OnceLock<Globals> = OnceLock::new();
    G.get_or_init(|| {
        let mut b = GlobalsBuilder::extended_by(&[
            LibraryExtension::StructType,
            LibraryExtension::RecordType,
            LibraryExtension::EnumType,
            LibraryExtension::NamespaceType,
            LibraryExtension::Map,
            LibraryExtension::Filter,
            LibraryExtension::Partial,
            LibraryExtension::Debug,
            LibraryExtension::Print,
            LibraryExtension::Pprint,
            LibraryExtension::Pstr,
            LibraryExtension::Prepr,
            LibraryExtension::Json,
            LibraryExtension::Typing,
            LibraryExtension::Internal,
            LibraryExtension::CallStack,
            LibraryExtension::SetType,
        ]);
        harness_natives(&mut b);
        crate::props::c08::c08_macro_natives(&mut b);
        b.build()
    })
}

pub struct PrintToTx;
impl starlark::PrintHandler for PrintToTx {
    fn println(&self, text: &str) -> starlark::Result<()> {
        tx_push(format!("print:{text}"));
        Ok(())
    }
}

// ------------------------------------------------------------------------------------------
// Evaluation helpers

#[derive(Clone, Debug, PartialEq)]
pub struct ErrInfo {
    pub kind: &'static str,
    /// Message without diagnostics (no file/line/stack).
    pub msg: String,
    /// Full Display (with span and call stack).
    pub full: String,
    pub span: Option<(String, u32, u32)>,
}

pub fn err_info(e: &starlark::Error) -> ErrInfo {
    ErrInfo {
        kind: error_kind_name(e),
        msg: format!("{}", e.without_diagnostic()),
        full: format!("{e}"),
        span: e.span().map(|s| (s.filename().to_owned(), s.span.begin().get(), s.span.end().get())),
    }
}

#[derive(Clone, Debug)]
pub struct Outcome {
    pub tx: Vec<String>,
    pub result: Result<String, ErrInfo>,
    /// Public module globals after the run (name, encoding), in name order.
    pub vars: Vec<(String, String)>,
    pub ticks: u64,
}

#[derive(Clone)]
pub struct RunCfg {
    pub dialect: Dialect,
    pub max_ticks: u64,
    pub max_heap: usize,
    pub callstack: Option<usize>,
    pub static_typecheck: bool,
    pub disable_gc: bool,
}

impl Default for RunCfg {
    fn default() -> RunCfg {
        RunCfg {
            dialect: dialect_all(),
            max_ticks: 2_000_000,
            max_heap: 512 << 20,
            callstack: None,
            static_typecheck: false,
            disable_gc: false,
        }
    }
}

pub fn dialect_all() -> Dialect {
    Dialect::AllOptionsInternal
}

pub fn parse(name: &str, src: &str, dialect: &Dialect) -> Result<AstModule, starlark::Error> {
    AstModule::parse(name, src.to_owned(), dialect)
}

pub fn setup_eval(eval: &mut Evaluator, cfg: &RunCfg) {
    let _ = eval.set_max_tick_count(cfg.max_ticks);
    let _ = eval.set_max_heap_size(cfg.max_heap);
    if let Some(n) = cfg.callstack {
        let _ = eval.set_max_callstack_size(n);
    }
    if cfg.static_typecheck {
        eval.enable_static_typechecking(true);
    }
    if cfg.disable_gc {
        eval.disable_gc();
    }
}

pub fn module_vars(module: &Module) -> Vec<(String, String)> {
    let mut names: Vec<String> = module.names().map(|n| n.as_str().to_owned()).collect();
    names.sort();
    names
        .into_iter()
        .filter(|n| !n.starts_with('_'))
        .filter_map(|n| module.get(&n).map(|v| (n, encode(v))))
        .collect()
}

/// Evaluate `src` in a fresh module with the given loads available; returns the outcome.
pub fn run_src(name: &str, src: &str, cfg: &RunCfg, loads: &[(&str, &FrozenModule)]) -> Outcome {
    run_src_with(name, src, cfg, loads, |_, _| {})
}

/// As `run_src`, calling `after(module, eval)` after a successful or failed evaluation (still inside the heap scope).
pub fn run_src_with(
    name: &str,
    src: &str,
    cfg: &RunCfg,
    loads: &[(&str, &FrozenModule)],
    after: impl for<'v> FnOnce(&Module<'v>, &mut Evaluator<'v, '_, '_>),
) -> Outcome {
    tx_reset();
    let ast = match parse(name, src, &cfg.dialect) {
        Ok(a) => a,
        Err(e) => {
            return Outcome { tx: Vec::new(), result: Err(err_info(&e)), vars: Vec::new(), ticks: 0 };
        }
    };
    Module::with_temp_heap(|module| {
        let map: HashMap<&str, &FrozenModule> = loads.iter().copied().collect();
        let loader = ReturnFileLoader { modules: &map };
        let printer = PrintToTx;
        let (result, ticks) = {
            let mut eval = Evaluator::new(&module);
            eval.set_loader(&loader);
            eval.set_print_handler(&printer);
            setup_eval(&mut eval, cfg);
            let r = eval.eval_module(ast, globals());
            let r = match r {
                Ok(v) => Ok(encode(v)),
                Err(e) => Err(err_info(&e)),
            };
            after(&module, &mut eval);
            (r, eval.get_total_tick_count())
        };
        let vars = module_vars(&module);
        Outcome { tx: tx_take(), result, vars, ticks }
    })
}

/// Evaluate and freeze; returns the frozen module (or the error) together with the outcome.
pub fn run_and_freeze(name: &str, src: &str, cfg: &RunCfg, loads: &[(&str, &FrozenModule)]) -> (Outcome, Option<FrozenModule>) {
    tx_reset();
    let ast = match parse(name, src, &cfg.dialect) {
        Ok(a) => a,
        Err(e) => {
            return (Outcome { tx: Vec::new(), result: Err(err_info(&e)), vars: Vec::new(), ticks: 0 }, None);
        }
    };
    Module::with_temp_heap(|module| {
        let map: HashMap<&str, &FrozenModule> = loads.iter().copied().collect();
        let loader = ReturnFileLoader { modules: &map };
        let printer = PrintToTx;
        let (result, ticks) = {
            let mut eval = Evaluator::new(&module);
            eval.set_loader(&loader);
            eval.set_print_handler(&printer);
            setup_eval(&mut eval, cfg);
            let r = eval.eval_module(ast, globals());
            let r = match r {
                Ok(v) => Ok(encode(v)),
                Err(e) => Err(err_info(&e)),
            };
            (r, eval.get_total_tick_count())
        };
        let vars = module_vars(&module);
        let ok = result.is_ok();
        let out = Outcome { tx: tx_take(), result, vars, ticks };
        if ok {
            match module.freeze_named(FrozenHeapName::user(name)) {
                Ok(f) => (out, Some(f)),
                Err(e) => {
                    let mut out = out;
                    out.result = Err(ErrInfo { kind: "Freeze", msg: format!("{e:?}"), full: format!("{e:?}"), span: None });
                    (out, None)
                }
            }
        } else {
            (out, None)
        }
    })
}

#[allow(dead_code)]
pub fn heap_unused(_h: Heap) {}
