//! svf library: engine, generators and property checks (shared by the `svf` binary and the fuzz targets).
#![allow(dead_code)]
pub mod astx;
pub mod corpus;
pub mod engine;
pub mod oracle;
pub mod prog;
pub mod props;
pub mod sl;
pub mod textgen;
