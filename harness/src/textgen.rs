//! Text generators: token soups, lexer corner cases, mutations of valid programs, raw bytes,
//! nesting families.

use crate::engine::Choices;

pub const KEYWORDS: &[&str] = &["and", "break", "continue", "def", "elif", "else", "for", "if", "in", "lambda", "load", "not", "or", "pass", "return"];
pub const RESERVED: &[&str] = &["as", "assert", "class", "del", "except", "finally", "from", "global", "import", "is", "nonlocal", "raise", "try", "while", "with", "yield", "async", "await"];
pub const OPS: &[&str] = &[
    "+", "-", "*", "/", "//", "%", "**", "&", "|", "^", "<<", ">>", "~", "==", "!=", "<", ">", "<=", ">=", "=", "+=", "-=", "*=", "/=", "//=", "%=", "&=",
    "|=", "^=", "<<=", ">>=", ".", ",", ";", ":", "->", "...", "!", "@", "$", "?", "`",
];
pub const BRACKETS: &[&str] = &["(", ")", "[", "]", "{", "}"];
pub const IDENTS: &[&str] = &["x", "y", "f", "foo", "_a", "a1", "True", "False", "None", "len", "fail", "str", "b", "r", "rb", "br", "é", "名", "x\u{301}"];
pub const NUMS: &[&str] = &[
    "0", "1", "42", "007", "0x1F", "0X", "0b101", "0b2", "0o17", "0o8", "1.5", ".5", "5.", "1e3", "1e", "1e+5", "1_000", "2147483647", "2147483648", "9223372036854775808",
    "123456789012345678901234567890", "0.0", "1.e2", "0xg", "1j", "00", "0_0", "1__0", "0e0", "1E-3",
];
pub const STRS: &[&str] = &[
    "\"\"", "''", "\"a\"", "'a'", "\"a\\nb\"", "'\\''", "\"\\\"\"", "\"\\x41\"", "\"\\x4\"", "\"\\u00e9\"", "\"\\u12\"", "\"\\U0001F600\"", "\"\\U00110000\"", "\"\\101\"", "\"\\400\"",
    "\"\\0\"", "\"\\q\"", "\"\\\"", "\"\"\"a\"\"\"", "'''a'''", "\"\"\"a\"b\"\"\"", "\"\"\"a\"\"b\"\"\"", "\"\"\"\n\"\"\"", "'''\\'''", "\"\"\"a\"\"\"\"", "\"\"\"\"\"", "r\"a\\nb\"", "r'\\'", "r\"\\\"\"",
    "b\"ab\"", "b'\\xff'", "b\"é\"", "rb\"\\x\"", "f\"a\"", "f\"{x}\"", "f\"{x!r}\"", "f\"{x!s}\"", "f\"{{}}\"", "f\"{\"", "f\"}\"", "f\"{x\"", "f\"{x!}\"", "f\"{x!q}\"", "f\"{x + 1}\"", "f\"{f(x)}\"",
    "f'{\"a\"}'", "f\"{x:>3}\"", "f\"\"\"{x}\n\"\"\"", "fr\"{x}\"", "rf\"{x}\"", "f\"{}\"", "f\"{ x }\"", "f\"{x}{y}\"", "f\"é{x}名\"", "\"é\"", "\"名\"", "\"😀\"", "\"a\\\nb\"", "\"a\nb\"", "'a", "\"a",
    "\"\"\"a", "'''", "\"\\", "\"\u{0}\"", "\"\t\"", "\"\\t\"", "\"\\r\"", "\"a\\\r\nb\"",
];

const STR_PIECES: &[&str] = &[
    "a", "xyz", " ", "0", "é", "名", "😀", "\u{301}", "\u{feff}", "\u{a0}", "\\n", "\\t", "\\\\", "\\\"", "\\'", "\\x41", "\\x4", "\\x", "\\xg1", "\\u00e9", "\\u12", "\\u", "\\ud800",
    "\\U0001F600", "\\U0001", "\\U00110000", "\\U", "\\101", "\\400", "\\7", "\\8", "\\0", "\\q", "\\é", "\\名", "\\😀", "\\", "\\\n", "\\\r\n", "\\\r", "\n", "\r", "\t", "\u{0}", "{", "}", "{{", "}}",
    "{x}", "{x!r}", "{x!s}", "{ x }", "{x", "x}", "{x!}", "{é}", "{\"é\"}", "{x:>3}", "{}", "{0}", "%s", "%", "#", "\"", "'", "\"\"", "''",
];

/// A string literal assembled from corner-case pieces: every prefix, quote style, escape form (complete and cut
/// short), brace form and multi-byte character, in random adjacency; sometimes left unterminated.
pub fn strlit(ch: &mut Choices) -> String {
    let prefix = *ch.pick(&["", "", "", "r", "b", "rb", "br", "f", "f", "f", "fr", "rf", "F", "R", "B", "u"]);
    let quote = *ch.pick(&["\"", "\"", "'", "\"\"\"", "'''"]);
    let mut s = format!("{prefix}{quote}");
    let n = ch.idx(7);
    for _ in 0..n {
        s.push_str(ch.pick_s(STR_PIECES));
    }
    if !ch.chance(1, 8) {
        s.push_str(quote);
    }
    s
}

fn a_str(ch: &mut Choices) -> String {
    if ch.chance(2, 5) { (*ch.pick(STRS)).to_owned() } else { strlit(ch) }
}

fn tok(ch: &mut Choices) -> String {
    match ch.weighted(&[6, 1, 7, 5, 6, 4, 4, 3]) {
        0 => (*ch.pick(KEYWORDS)).to_owned(),
        1 => (*ch.pick(RESERVED)).to_owned(),
        2 => (*ch.pick(OPS)).to_owned(),
        3 => (*ch.pick(BRACKETS)).to_owned(),
        4 => (*ch.pick(IDENTS)).to_owned(),
        5 => (*ch.pick(NUMS)).to_owned(),
        6 => a_str(ch),
        _ => match ch.below(8) {
            0 => "#c\n".to_owned(),
            1 => "# é 😀\n".to_owned(),
            2 => "\\\n".to_owned(),
            3 => "\t".to_owned(),
            4 => "\r\n".to_owned(),
            5 => "\r".to_owned(),
            6 => "#".to_owned(),
            _ => "\\".to_owned(),
        },
    }
}

/// Token soup with indentation shapes.
pub fn soup(ch: &mut Choices, max_tokens: usize) -> String {
    let n = 1 + ch.idx(max_tokens);
    let mut s = String::new();
    let mut indent = 0usize;
    for _ in 0..n {
        if ch.exhausted() {
            break;
        }
        if ch.chance(1, 6) {
            s.push('\n');
            match ch.below(5) {
                0 => indent += 1 + ch.idx(4),
                1 => indent = indent.saturating_sub(1 + ch.idx(4)),
                2 => indent = 0,
                _ => {}
            }
            for _ in 0..indent {
                s.push(' ');
            }
        } else if !s.is_empty() && ch.chance(5, 6) {
            s.push(' ');
        }
        s.push_str(&tok(ch));
    }
    if ch.bool() {
        s.push('\n');
    }
    s
}

/// Statement-shaped fragments that exercise lexer corner cases.
pub fn lexcorner(ch: &mut Choices) -> String {
    let nl = *ch.pick(&["\n", "\r\n", "\n", "\r"]);
    let mut s = String::new();
    let lines = 1 + ch.idx(6);
    for _ in 0..lines {
        if ch.exhausted() {
            break;
        }
        match ch.below(14) {
            0 => s.push_str(&format!("x = {}", a_str(ch))),
            1 => s.push_str(&format!("x = {} + {}", ch.pick(NUMS), ch.pick(NUMS))),
            2 => s.push_str(&format!("y = [{}, \\{nl}  {}]", ch.pick(NUMS), a_str(ch))),
            3 => s.push_str(&format!("def f(a):{nl}\tif a:{nl}\t\treturn {}{nl}    return 1", a_str(ch))),
            4 => s.push_str(&format!("if x:{nl}  y = 1{nl}    z = 2")),
            5 => s.push_str(&format!("x = ({nl}  1,{nl}# c{nl}  {}{nl})", a_str(ch))),
            6 => s.push_str(&format!("s = {}.format({})", a_str(ch), ch.pick(IDENTS))),
            7 => s.push_str(&format!("{} {}", a_str(ch), a_str(ch))),
            8 => s.push_str(&format!("x = {}{}", ch.pick(IDENTS), a_str(ch))),
            9 => s.push_str(&format!("# {} \\", a_str(ch))),
            10 => s.push_str(&format!("x = 1 \\{nl}+ 2 \\")),
            11 => s.push_str(&format!("x = {} if {} else {}", a_str(ch), ch.pick(IDENTS), ch.pick(NUMS))),
            12 => s.push_str(&format!("é = {}", a_str(ch))),
            _ => s.push_str(&format!("load({}, {}){nl}x = \"名\"; y = f\"{{x}}😀\"", a_str(ch), a_str(ch))),
        }
        s.push_str(nl);
        if ch.chance(1, 8) {
            s.push_str(*ch.pick(&["  ", "\t", " \t", "\u{c}", "\u{a0}", "\u{feff}"]));
        }
    }
    if ch.chance(1, 4) {
        // cut somewhere (possibly inside a multi-byte character boundary-aligned)
        let mut cut = ch.idx(s.len() + 1);
        while !s.is_char_boundary(cut) {
            cut -= 1;
        }
        s.truncate(cut);
    }
    s
}

pub fn raw_bytes(ch: &mut Choices, max: usize) -> String {
    let n = ch.idx(max + 1);
    let mut v = Vec::with_capacity(n);
    for _ in 0..n {
        if ch.exhausted() {
            break;
        }
        let b = match ch.below(4) {
            0 => ch.below(256) as u8,
            1 => *ch.pick(b"()[]{}:,.=+-*/%<>!&|^~#\"'\\\n\r\t 0189abfrxXeE_"),
            2 => ch.below(128) as u8,
            _ => *ch.pick(&[0xc3u8, 0xa9, 0xe5, 0x90, 0x8d, 0xf0, 0x9f, 0x98, 0x80, 0xff, 0x00, 0x7f]),
        };
        v.push(b);
    }
    String::from_utf8_lossy(&v).into_owned()
}

/// Split into rough lexical chunks (identifier/number runs, strings are not respected on purpose).
fn chunks(s: &str) -> Vec<&str> {
    let mut out = Vec::new();
    let mut start = 0;
    let mut prev_kind = 0u8;
    for (i, c) in s.char_indices() {
        let kind = if c.is_alphanumeric() || c == '_' {
            1
        } else if c == ' ' {
            2
        } else {
            3
        };
        if i > start && (kind != prev_kind || kind == 3) {
            out.push(&s[start..i]);
            start = i;
        }
        prev_kind = kind;
    }
    if start < s.len() {
        out.push(&s[start..]);
    }
    out
}

/// Token- and byte-level mutation of a (valid) program.
pub fn mutate(ch: &mut Choices, base: &str) -> String {
    let mut parts: Vec<String> = chunks(base).into_iter().map(|s| s.to_owned()).collect();
    let n = 1 + ch.idx(4);
    for _ in 0..n {
        if parts.is_empty() || ch.exhausted() {
            break;
        }
        let i = ch.idx(parts.len());
        match ch.below(9) {
            0 => {
                parts.remove(i);
            }
            1 => {
                let p = parts[i].clone();
                parts.insert(i, p);
            }
            2 => {
                let j = ch.idx(parts.len());
                parts.swap(i, j);
            }
            3 => parts.insert(i, tok(ch)),
            4 => parts[i] = tok(ch),
            5 => {
                // delete a range
                let j = (i + 1 + ch.idx(6)).min(parts.len());
                parts.drain(i..j);
            }
            6 => {
                // byte-level: cut the chunk at a char boundary
                let p = &parts[i];
                let mut cut = ch.idx(p.len() + 1);
                while !p.is_char_boundary(cut) {
                    cut -= 1;
                }
                parts[i] = p[..cut].to_owned();
            }
            7 => parts.insert(i, (*ch.pick(&["\n", "\r\n", "\t", "  ", "\\\n", "é", "😀", "\u{0}"])).to_owned()),
            _ => {
                // truncate the file here
                parts.truncate(i);
            }
        }
    }
    parts.concat()
}

#[derive(Clone, Copy, Debug, PartialEq)]
pub enum NestKind {
    Round,
    Square,
    Curly,
    Mixed,
    Indent,
    Call,
    IndexChain,
    DotChain,
    BinChain,
    PrefixMinus,
    PrefixNot,
    PrefixTilde,
    Ternary,
    LambdaChain,
    ComprehensionClauses,
    ElifChain,
    StringConcat,
}

pub const NEST_KINDS: &[NestKind] = &[
    NestKind::Round,
    NestKind::Square,
    NestKind::Curly,
    NestKind::Mixed,
    NestKind::Indent,
    NestKind::Call,
    NestKind::IndexChain,
    NestKind::DotChain,
    NestKind::BinChain,
    NestKind::PrefixMinus,
    NestKind::PrefixNot,
    NestKind::PrefixTilde,
    NestKind::Ternary,
    NestKind::LambdaChain,
    NestKind::ComprehensionClauses,
    NestKind::ElifChain,
    NestKind::StringConcat,
];

impl NestKind {
    /// Bracket / indent nesting: bounded by 200 by the property. The others are flat chains, bounded
    /// only by the text size.
    pub fn is_bracket_nesting(self) -> bool {
        matches!(self, NestKind::Round | NestKind::Square | NestKind::Curly | NestKind::Mixed | NestKind::Indent | NestKind::Call)
    }
}

pub fn nest(kind: NestKind, d: usize) -> String {
    let mut s = String::new();
    match kind {
        NestKind::Round => {
            s.push_str("x = ");
            s.push_str(&"(".repeat(d));
            s.push('1');
            s.push_str(&")".repeat(d));
        }
        NestKind::Square => {
            s.push_str("x = ");
            s.push_str(&"[".repeat(d));
            s.push('1');
            s.push_str(&"]".repeat(d));
        }
        NestKind::Curly => {
            s.push_str("x = ");
            s.push_str(&"{1:".repeat(d));
            s.push('1');
            s.push_str(&"}".repeat(d));
        }
        NestKind::Mixed => {
            s.push_str("x = ");
            for i in 0..d {
                s.push_str(["(", "[", "{1:", "f("][i % 4]);
            }
            s.push('1');
            for i in (0..d).rev() {
                s.push_str([")", "]", "}", ")"][i % 4]);
            }
        }
        NestKind::Indent => {
            for i in 0..d {
                s.push_str(&" ".repeat(i));
                s.push_str(["if x:\n", "for y in z:\n"][i % 2]);
            }
            s.push_str(&" ".repeat(d));
            s.push_str("pass");
        }
        NestKind::Call => {
            s.push_str("x = ");
            s.push_str(&"f(a, ".repeat(d));
            s.push('1');
            s.push_str(&")".repeat(d));
        }
        NestKind::IndexChain => {
            s.push_str("x = a");
            s.push_str(&"[0]".repeat(d));
        }
        NestKind::DotChain => {
            s.push_str("x = a");
            s.push_str(&".b()".repeat(d));
        }
        NestKind::BinChain => {
            s.push_str("x = 1");
            for i in 0..d {
                s.push_str([" + 1", " * 2", " - 3", " or 4", " and 5", " | 6"][i % 6]);
            }
        }
        NestKind::PrefixMinus => {
            s.push_str("x = ");
            s.push_str(&"-".repeat(d));
            s.push('1');
        }
        NestKind::PrefixNot => {
            s.push_str("x = ");
            s.push_str(&"not ".repeat(d));
            s.push('1');
        }
        NestKind::PrefixTilde => {
            s.push_str("x = ");
            s.push_str(&"~+".repeat(d));
            s.push('1');
        }
        NestKind::Ternary => {
            s.push_str("x = ");
            s.push_str(&"1 if c else ".repeat(d));
            s.push('2');
        }
        NestKind::LambdaChain => {
            s.push_str("x = ");
            s.push_str(&"lambda: ".repeat(d));
            s.push('1');
        }
        NestKind::ComprehensionClauses => {
            s.push_str("x = [1");
            s.push_str(&" for a in b if a".repeat(d));
            s.push(']');
        }
        NestKind::ElifChain => {
            s.push_str("if a:\n  pass\n");
            s.push_str(&"elif b:\n  pass\n".repeat(d));
            s.push_str("else:\n  pass");
        }
        NestKind::StringConcat => {
            s.push_str("x = ''");
            s.push_str(&" 'a'".repeat(d));
        }
    }
    s.push('\n');
    s
}
