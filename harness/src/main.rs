//! svf — property-based verification harness for facebook/starlark-rust (see /verif/DESIGN.md).


use svf::engine;
use svf::engine::Tier;
use svf::props;
use svf::sl;
use svf::textgen;

fn arg_value(args: &[String], name: &str) -> Option<String> {
    args.iter().position(|a| a == name).and_then(|i| args.get(i + 1).cloned())
}

fn main() {
    let args: Vec<String> = std::env::args().collect();
    if args.len() < 2 {
        eprintln!("usage: svf check|worker|one|replay|probes|list <ID> ...");
        std::process::exit(2);
    }
    let cmd = args[1].as_str();
    if cmd == "list" {
        for p in props::all() {
            println!("{}", p.id());
        }
        return;
    }
    if cmd == "eval" {
        // exploration helper: evaluate a file with the harness globals, print transcript/outcome
        let src = std::fs::read_to_string(&args[2]).unwrap();
        // same stack size as the workers
        let h = std::thread::Builder::new().stack_size(engine::WORKER_STACK).spawn(move || {
            let out = sl::run_src("x.star", &src, &sl::RunCfg::default(), &[]);
            for t in &out.tx {
                println!("tx: {}", engine::truncate(t, 300));
            }
            match &out.result {
                Ok(v) => println!("ok: {}", engine::truncate(v, 300)),
                Err(e) => println!("err[{}]: {}\n{}", e.kind, e.msg, engine::truncate(&e.full, 600)),
            }
            println!("ticks: {}", out.ticks);
        }).unwrap();
        let _ = h.join();
        return;
    }
    if cmd == "tc" {
        use starlark::typing::AstModuleTypecheck;
        let src = std::fs::read_to_string(&args[2]).unwrap();
        let ast = sl::parse("tc.star", &src, &sl::dialect_all()).unwrap();
        let (errors, tm, iface, approx) = ast.typecheck(sl::globals(), &Default::default());
        println!("IFACE {iface:?}");
        for e in errors {
            println!("ERROR {e}");
        }
        for a in approx {
            println!("APPROX {a}");
        }
        println!("{tm}");
        return;
    }
    if cmd == "eval2" {
        // exploration helper: freeze the first file as "lib.star", evaluate the second with load("lib.star", ...)
        let lib = std::fs::read_to_string(&args[2]).unwrap();
        let main = std::fs::read_to_string(&args[3]).unwrap();
        let (o, f) = sl::run_and_freeze("lib.star", &lib, &sl::RunCfg::default(), &[]);
        println!("lib: {:?}", o.result.map_err(|e| e.full));
        if let Some(f) = f {
            let out = sl::run_src("main.star", &main, &sl::RunCfg::default(), &[("lib.star", &f)]);
            for t in &out.tx {
                println!("tx: {}", engine::truncate(t, 300));
            }
            match &out.result {
                Ok(v) => println!("ok: {}", engine::truncate(v, 300)),
                Err(e) => println!("err[{}]: {}", e.kind, e.msg),
            }
        }
        return;
    }
    if cmd == "parse" {
        // exploration helper: run the C05 predicate on a file
        let src = std::fs::read_to_string(&args[2]).unwrap();
        let pc = props::c05::check_parse(&src, &starlark::syntax::Dialect::AllOptionsInternal, false);
        println!("ok={} problems={:?}", pc.ok, pc.problems);
        return;
    }
    if cmd == "c20-child" {
        std::process::exit(props::c20::child_main(&args[2], &args[3]));
    }
    if cmd == "det-child" {
        std::process::exit(props::c14::child_main(&args[2], args[3].parse().unwrap_or(0)));
    }
    if cmd == "c15-calib" {
        props::c15::calibrate();
        return;
    }
    if cmd == "c12-dist" {
        props::c12::distribution();
        return;
    }
    if cmd == "c05-nest" {
        // exploration helper: parse one nesting-family text on a 16 MiB stack
        let k: usize = args[2].parse().unwrap();
        let d: usize = args[3].parse().unwrap();
        let h = std::thread::Builder::new()
            .stack_size(engine::WORKER_STACK)
            .spawn(move || {
                let src = textgen::nest(textgen::NEST_KINDS[k], d);
                let pc = props::c05::check_parse(&src, &starlark::syntax::Dialect::AllOptionsInternal, false);
                println!("{:?} d={d} len={} ok={} problems={:?} depth={}", textgen::NEST_KINDS[k], src.len(), pc.ok, pc.problems, pc.depth);
            })
            .unwrap();
        h.join().unwrap();
        return;
    }
    let id = args.get(2).cloned().unwrap_or_default();
    let tier = Tier::parse(
        &arg_value(&args, "--tier").or_else(|| std::env::var("VERIF_TIER").ok()).unwrap_or_else(|| "quick".into()),
    );
    let seed: u64 = arg_value(&args, "--seed")
        .or_else(|| std::env::var("VERIF_SEED").ok())
        .and_then(|s| s.trim().parse::<i128>().ok())
        .map(|x| x as u64)
        .unwrap_or(engine::DEFAULT_SEED);
    let Some(prop) = props::find(&id) else {
        eprintln!("unknown property {id}");
        std::process::exit(2);
    };
    let code = match cmd {
        "check" => {
            if let Some(path) = arg_value(&args, "--replay") {
                engine::replay_main(prop, &path)
            } else {
                engine::check_main(prop, tier, seed)
            }
        }
        "worker" => {
            let index: usize = arg_value(&args, "--index").and_then(|s| s.parse().ok()).unwrap_or(0);
            let of: usize = arg_value(&args, "--of").and_then(|s| s.parse().ok()).unwrap_or(1);
            engine::worker_main(prop, tier, seed, index, of)
        }
        "one" => engine::one_main(prop, tier, seed, &args[3], args.iter().any(|a| a == "--strict")),
        "replay" => engine::replay_main(prop, &args[3]),
        "render" => engine::render_main(prop, tier, seed, &args[3]),
        "probe" => engine::probe_main(prop, tier, seed, args[3].clone()),
        _ => {
            eprintln!("unknown command {cmd}");
            2
        }
    };
    std::process::exit(code);
}
