//! Coverage-guided driver for the harness's choice-sequence generators: the input bytes are the u32
//! choice vector; the property (env SVF_PROP, default C11) generates and checks one case with its
//! semantic oracle in-process. A failing case aborts; the artifact replays through `svf replay-bytes`.
#![no_main]
use libfuzzer_sys::fuzz_target;
use std::sync::OnceLock;
use svf::engine::{Choices, Ctx, Prop, Tier};

fn prop() -> &'static dyn Prop {
    static P: OnceLock<&'static dyn Prop> = OnceLock::new();
    *P.get_or_init(|| {
        let id = std::env::var("SVF_PROP").unwrap_or_else(|_| "C11".to_owned());
        svf::props::find(&id).expect("unknown property")
    })
}

fuzz_target!(|data: &[u8]| {
    let v: Vec<u32> = data.chunks(4).map(|c| {
        let mut b = [0u8; 4];
        b[..c.len()].copy_from_slice(c);
        u32::from_le_bytes(b)
    }).collect();
    let p = prop();
    let known = svf::engine::load_known();
    let mut ctx = Ctx { tier: Tier::Thorough, seed: 0, open: known.open_for(p.id()), strict: false, worker: 0, workers: 1, oracle: None };
    let open = ctx.open.clone();
    let r = p.run(&mut ctx, &mut Choices::new(&v));
    for f in &r.fails {
        if !open.contains(&f.class) && f.class != "generator-bug" {
            panic!("VIOLATION property={} class={} {}", p.id(), f.class, f.msg);
        }
    }
});
