//! Byte-level target for C05: first two bytes choose the dialect, the rest is the text (lossy UTF-8).
//! The oracle is the C05 validity predicate (error/AST span well-formedness), not just "no crash".
#![no_main]
use libfuzzer_sys::fuzz_target;
use starlark::syntax::{Dialect, DialectTypes};

fuzz_target!(|data: &[u8]| {
    if data.len() < 2 || data.len() > 65536 {
        return;
    }
    let bits = u16::from_le_bytes([data[0], data[1]]);
    let mut d = Dialect::AllOptionsInternal;
    d.enable_def = bits & 1 == 0;
    d.enable_lambda = bits & 2 == 0;
    d.enable_load = bits & 4 == 0;
    d.enable_keyword_only_arguments = bits & 8 == 0;
    d.enable_positional_only_arguments = bits & 16 == 0;
    d.enable_types = match (bits >> 5) & 3 { 0 | 3 => DialectTypes::Enable, 1 => DialectTypes::ParseOnly, _ => DialectTypes::Disable };
    d.enable_load_reexport = bits & 128 == 0;
    d.enable_top_level_stmt = bits & 256 == 0;
    d.enable_f_strings = bits & 512 == 0;
    let text = String::from_utf8_lossy(&data[2..]).into_owned();
    // known finding: unary prefix chains overflow the native stack; keep the campaign behind it
    let mut run = 0usize;
    for c in text.chars() {
        if matches!(c, '-' | '+' | '~' | ' ') { run += 1; if run > 3000 { return; } } else { run = 0; }
    }
    let pc = svf::props::c05::check_parse(&text, &d, false);
    if !pc.problems.is_empty() {
        panic!("VIOLATION property=C05 {:?} text={:?}", pc.problems, text);
    }
});
