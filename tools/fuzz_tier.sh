#!/bin/bash
# tools/fuzz_tier.sh <ID> [seconds]
# Coverage-guided campaign (cargo-fuzz / libFuzzer, nightly, AddressSanitizer) over the SAME choice-sequence generator
# and oracle the proptest tier uses: the input bytes are the u32 choice vector, `choices` (fuzz/fuzz_targets/choices.rs)
# runs Prop::run in-process and aborts on a failure whose class is not an open known finding.
# Exit 0 = nothing found, 1 = VIOLATION (replay file printed), 2 = inconclusive (build failure, timeout/oom artifact,
# crash that does not reproduce). Statistics are merged into /verif/evidence/<ID>.json under coverage.fuzz.
set -u
id=$1; secs=${2:-${VERIF_FUZZ_SECS:-600}}
seed=${VERIF_SEED:-20260923}
jobs=${VERIF_FUZZ_JOBS:-8}
cd /verif/harness || exit 2
if ! RUSTFLAGS="--cfg starlark_verif" CARGO_NET_OFFLINE=true cargo +nightly fuzz build --fuzz-dir /verif/fuzz --target-dir /verif/target/fuzz choices > /verif/target/fuzz-build.log 2>&1; then
  echo "INCONCLUSIVE property=$id fuzz target does not build (see /verif/target/fuzz-build.log)"; tail -5 /verif/target/fuzz-build.log; exit 2
fi
bin=/verif/target/fuzz/x86_64-unknown-linux-gnu/release/choices
work=/verif/target/fuzzwork/$id
rm -rf "$work"; mkdir -p "$work/corpus" "$work/artifacts" "$work/logs"
# seed corpus: a few random choice vectors of full length (libFuzzer grows inputs slowly from an empty corpus)
python3 - "$work/corpus" "$seed" <<'PY'
import sys, random, struct
d, seed = sys.argv[1], int(sys.argv[2])
r = random.Random(seed)
for i in range(24):
    n = r.choice([40, 120, 400, 800])
    open(f"{d}/seed{i}", "wb").write(b"".join(struct.pack("<I", r.choice([r.getrandbits(32), r.getrandbits(26), 0xffffffff, 0])) for _ in range(n)))
PY
start=$(date +%s)
( cd "$work/logs" && ulimit -s 1048576 && SVF_PROP=$id ASAN_OPTIONS=detect_odr_violation=0:detect_leaks=0 "$bin" "$work/corpus" -seed="$seed" -max_total_time="$secs" -len_control=0 -max_len=3600 \
    -rss_limit_mb=8000 -malloc_limit_mb=6000 -timeout=180 -artifact_prefix="$work/artifacts/" -jobs="$jobs" -workers="$jobs" -print_final_stats=1 > "$work/driver.log" 2>&1 )
end=$(date +%s)
python3 - "$id" "$work" "$seed" "$((end-start))" <<'PY'
import sys, os, re, json, glob, struct, subprocess, hashlib
id, work, seed, wall = sys.argv[1], sys.argv[2], int(sys.argv[3]), int(sys.argv[4])
units = 0; cov = 0; ft = 0
for f in glob.glob(f"{work}/logs/fuzz-*.log"):
    t = open(f, errors="replace").read()
    m = re.findall(r"stat::number_of_executed_units:\s*(\d+)", t)
    if m: units += int(m[-1])
    m = re.findall(r"cov: (\d+) ft: (\d+)", t)
    if m:
        cov = max(cov, int(m[-1][0])); ft = max(ft, int(m[-1][1]))
corpus = len(os.listdir(f"{work}/corpus"))
arts = sorted(os.listdir(f"{work}/artifacts"))
viol = []; inconclusive = []
os.makedirs(f"/verif/replay/{id}", exist_ok=True)
for a in arts:
    p = f"{work}/artifacts/{a}"
    data = open(p, "rb").read()
    if a.startswith(("timeout-", "oom-", "slow-unit-")):
        if not a.startswith("slow-unit-"):
            inconclusive.append(f"libFuzzer {a.split('-')[0]} artifact {p}")
        continue
    data += b"\0" * ((4 - len(data) % 4) % 4)
    choices = ",".join("%x" % struct.unpack_from("<I", data, i)[0] for i in range(0, len(data), 4))
    rp = f"/verif/replay/{id}/fuzz-{hashlib.sha1(data).hexdigest()[:16]}.json"
    json.dump({"property": id, "seed": seed, "tier": "thorough", "choices": choices, "rendered_case": "", "class": "fuzz", "observed": f"libFuzzer artifact {a}", "crash": True, "replay": f"/verif/check {id} --replay {rp}"}, open(rp, "w"), indent=1)
    r = subprocess.run(["/verif/target/checked/svf", "check", id, "--replay", rp], capture_output=True, text=True)
    if r.returncode == 1:
        viol.append(rp)
    else:
        # not reproduced by the checked (non-sanitizer) build: keep the sanitizer report as the observation
        log = ""
        for f in glob.glob(f"{work}/logs/fuzz-*.log"):
            t = open(f, errors="replace").read()
            if a in t:
                i = t.find("ERROR: AddressSanitizer")
                log = t[i:i+1500] if i >= 0 else t[-1500:]
        if "AddressSanitizer" in log:
            j = json.load(open(rp)); j["observed"] = log; json.dump(j, open(rp, "w"), indent=1)
            viol.append(rp)
        else:
            inconclusive.append(f"artifact {a} does not reproduce through svf replay ({rp})")
ev_path = f"/verif/evidence/{id}.json"
try:
    ev = json.load(open(ev_path))
    ev["coverage"]["fuzz"] = {"engine": "libFuzzer via cargo-fuzz (nightly, ASan), target choices with SVF_PROP=" + id, "executed_units": units, "edge_coverage": cov, "features": ft,
                              "corpus_files": corpus, "artifacts": arts, "wall_s": wall, "seed": seed, "inconclusive": inconclusive}
    ev["coverage"]["evaluations"] = ev["coverage"].get("evaluations", 0) + units
    ev["violations"] = ev.get("violations", 0) + len(viol)
    ev["wall_s"] = ev.get("wall_s", 0) + wall
    json.dump(ev, open(ev_path, "w"), indent=1)
except Exception as e:
    print("evidence merge failed:", e)
print(f"[{id}] fuzz: executed_units={units} cov={cov} ft={ft} corpus={corpus} artifacts={len(arts)} wall={wall}s")
for v in viol: print(f"VIOLATION property={id} replay={v}")
for s in inconclusive: print(f"INCONCLUSIVE property={id} {s}")
sys.exit(1 if viol else (2 if inconclusive else 0))
PY
rc=$?
rm -rf "$work/corpus"
exit $rc
