#!/bin/bash
# tools/try_mutant.sh <patch.diff> <ID> [<ID>...] [-- extra args for ./check]
# Applies the patch to /repo, runs the given checks (quick tier unless TIER is set), reverts the patch.
set -u
patch=$1; shift
cd /repo || exit 2
if ! git diff --quiet; then echo "/repo has uncommitted changes"; exit 2; fi
git apply "$patch" || { echo "patch does not apply"; exit 2; }
trap 'git -C /repo checkout -- . ; git -C /repo clean -fdq -- starlark starlark_syntax starlark_map starlark_lsp 2>/dev/null' EXIT
cd /verif
for id in "$@"; do
  start=$(date +%s)
  out=$(./check $id --tier ${TIER:-quick} 2>&1); rc=$?
  end=$(date +%s)
  echo "== $id rc=$rc $((end-start))s"
  echo "$out" | grep -E "failure class|VIOLATION|INCONCLUSIVE|STARVED|BUILD-FAILED|crashing case|tier=" | cut -c1-400 | head -12
done
