#!/bin/bash
# tools/run_seeded.sh [name ...]  - sensitivity regression: applies each kept seeded change (seeded/<name>/patch.diff) to /repo,
# runs the quick check of the property it breaks, reverts, and prints CAUGHT (exit 1 with a VIOLATION line) or MISSED.
# About 2-4 minutes per change (the harness is rebuilt against the patched tree). /repo must be clean.
cd /verif || exit 2
names=("$@"); [ ${#names[@]} -eq 0 ] && names=($(ls seeded))
for n in "${names[@]}"; do
  prop=$(python3 -c "import json;print(json.load(open('/verif/seeded/$n/meta.json'))['breaks_property'])")
  out=$(tools/try_mutant.sh /verif/seeded/$n/patch.diff $prop 2>&1)
  if echo "$out" | grep -q "== $prop rc=1"; then echo "$n $prop CAUGHT"; else echo "$n $prop MISSED ($(echo "$out" | grep "== $prop" | head -1))"; fi
done
git -C /verif checkout evidence/ 2>/dev/null
