#!/bin/bash
# tools/confirm_seed.sh <worktree-with-DELIVER> <crate-of-demo> [full]
# Confirms a seeded change in the scratch worktree /var/tmp/confirm (warm build):
#  1. patch applies; 2. existing tests pass with it (touched crates + starlark lib; "full" = whole workspace nextest);
#  3. demo fails with it; 4. demo passes without it.
set -u
src=$1; crate=$2; full=${3:-}
C=/var/tmp/confirm
export CARGO_TARGET_DIR=$C/target CARGO_NET_OFFLINE=true
cd $C || exit 2
git checkout -q -- . && git clean -fdq -e target
git apply "$src/DELIVER/patch.diff" || { echo "PATCH DOES NOT APPLY"; exit 2; }
echo "== files touched:"; git diff --stat | tail -5
demo=$(ls $src/DELIVER/demo/*.rs | head -1); name=$(basename $demo .rs)
echo "== baseline suite (nextest, whole workspace) WITH change"
cargo nextest run --workspace --no-fail-fast --tool-config-file pb:/w/lib/nextest.toml --profile pb --test-threads 8 --offline 2>&1 | grep -E "Summary|^\s+FAIL|^error" | head -20
mkdir -p $crate/tests && cp $demo $crate/tests/$name.rs
echo "== demo WITH change (expect failure)"
cargo test -p $crate --offline --test $name 2>&1 | grep -E "^test result|^error" | head -5
git apply -R "$src/DELIVER/patch.diff"
echo "== demo WITHOUT change (expect pass)"
cargo test -p $crate --offline --test $name 2>&1 | grep -E "^test result|^error" | head -5
rm -f $crate/tests/$name.rs; rmdir $crate/tests 2>/dev/null
git checkout -q -- . ; git status --short | head
