#!/bin/bash
# tools/mk_seed_prompt.sh <ID> <suffix> [extra-text-file]  -> creates scratch worktree /tmp/mut/<ID>-<suffix> and prints the prompt
# (the prompt contains only the property text; nothing from /verif)
set -eu
id=$1; suf=$2; extra=${3:-}
wt=/tmp/mut/$id-$suf
mkdir -p /tmp/mut
git -C /repo worktree add --detach "$wt" HEAD >/dev/null 2>&1
python3 - "$id" "$wt" "$extra" <<'PY'
import json,sys
id,wt,extra=sys.argv[1:4]
p=[json.loads(l) for l in open('/verif/properties.jsonl') if json.loads(l)['id']==id][0]
prop='%s\n\n%s\n\nIt must hold for: %s\n\nWhy the existing tests cannot settle it: %s\n\nCode it is anchored in: %s' % (p['title'],p['statement'],p['quantifier']['text'],p['why_tests_cant'],json.dumps(p['anchors']))
t=open('/verif/tools/seed_prompt_template.txt').read().replace('@WT@',wt).replace('@PROPERTY@',prop)
t=t.replace('@EXTRA@', (open(extra).read() if extra else ''))
print(t)
PY
