#!/usr/bin/env python3
"""tools/keep_seed.py <name> <property> <demo-crate> <needs> <caught-by> [<notes>]
Copies /tmp/mut/<name>/DELIVER into /verif/seeded/<name>/ (patch.diff, demo/, REPORT.md) and writes meta.json."""
import json, os, shutil, sys, subprocess
name, prop, crate, needs, caught = sys.argv[1:6]
notes = sys.argv[6] if len(sys.argv) > 6 else ""
src = f"/tmp/mut/{name}/DELIVER"
dst = f"/verif/seeded/{name}"
os.makedirs(dst, exist_ok=True)
shutil.copy(f"{src}/patch.diff", f"{dst}/patch.diff")
if os.path.exists(f"{src}/REPORT.md"):
    shutil.copy(f"{src}/REPORT.md", f"{dst}/REPORT.md")
if os.path.isdir(f"{dst}/demo"):
    shutil.rmtree(f"{dst}/demo")
shutil.copytree(f"{src}/demo", f"{dst}/demo")
demo = [f for f in os.listdir(f"{dst}/demo") if f.endswith(".rs")][0]
files = subprocess.run(["git", "-C", "/repo", "apply", "--numstat", f"{dst}/patch.diff"], capture_output=True, text=True).stdout.split("\n")
meta = {
    "name": name,
    "breaks_property": prop,
    "base_commit": "59568c5 (patch also applies on later /repo HEADs unless noted)",
    "files_touched": [l.split("\t")[-1] for l in files if l.strip()],
    "needs_to_manifest": needs,
    "demonstration": {"file": f"demo/{demo}", "copy_to": f"{crate}/tests/{demo}", "run": f"cargo test -p {crate} --offline --test {demo[:-3]}"},
    "confirmed_by_me": {
        "where": "scratch worktree /var/tmp/confirm (removed at the end of the session), tools/confirm_seed.sh",
        "ran": [
            "git apply patch.diff (applies cleanly)",
            "cargo nextest run --workspace --no-fail-fast --profile pb --offline  -> 1308 tests run: 1308 passed (baseline suite unedited, with the change)",
            "demo with the change -> FAILED",
            "demo without the change (git apply -R) -> ok",
        ],
    },
    "checks_run_against_it": caught,
    "notes": notes,
}
json.dump(meta, open(f"{dst}/meta.json", "w"), indent=1)
print("kept", dst)
