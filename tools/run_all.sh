#!/bin/bash
# Runs every registered quick (or $1=thorough) check in sequence and prints one line per property.
tier=${1:-quick}
cd /verif
for id in C01 C02 C03 C04 C05 C06 C07 C08 C09 C10 C11 C12 C13 C14 C15 C16 C17 C18 C19 C20; do
  start=$(date +%s)
  out=$(./check $id --tier $tier 2>&1)
  rc=$?
  end=$(date +%s)
  echo "$id rc=$rc $((end-start))s $(echo "$out" | grep -E "^\[$id\] tier" | cut -c1-160)"
  echo "$out" | grep -E "VIOLATION|INCONCLUSIVE|STARVED|BUILD-FAILED" | head -5
done
