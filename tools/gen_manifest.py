#!/usr/bin/env python3
"""Regenerates /verif/MANIFEST.json from the table below (single source of truth)."""
import json, sys

CLAIMED = {
 # id: (technique, level text, level_note, design_ref)
 "C11": ("model-based stateful property testing (proptest-driven op histories vs Vec reference model) + bounded exhaustive enumeration of short histories; thorough adds a coverage-guided libFuzzer campaign over the same generator",
         "Exploration: random operation histories (adversarial/colliding 32-bit hashes, threshold-crossing bursts) and an exhaustively enumerated space of short histories, each step compared in full against a Vec<(K,V)> model. Held-on-everything-explored, not a proof.",
         "Trusts the Vec reference model in harness/src/props/c11.rs; stable toolchain (index threshold 16).", "DESIGN.md §5 C11"),
}
CLAIMED["C01"] = ("differential property testing against CPython 3.11 (type-directed program generator, proptest-driven, shrinking)",
    "Exploration: generated shared-core programs run at module level and inside def, compared with CPython (transcript, outcome class, final globals). Not a proof; constructs where Starlark deliberately differs from Python are outside the generator.",
    "Trusts CPython 3.11 as reference semantics and the harness's canonical value encoding on both sides.", "DESIGN.md §5 C01")
CLAIMED["C05"] = ("generated-input validity checking (token soups, lexer corner cases, mutated corpus, raw bytes, nesting families) with a span well-formedness predicate and a dialect-monotonicity metamorphic relation; worker-process isolation for crashes; string literals assembled from corner-case pieces, file-level prefixes/suffixes (BOM, shebang, control characters); thorough adds a coverage-guided libFuzzer campaign over the same generator",
    "Exploration: every generated text x dialect pair must parse to Ok/Err without crash; error and AST spans are checked by an independent visitor; wider dialects must accept the same tree.",
    "Trusts the harness's AST visitor (astx.rs) and the re-lex check for literal spans; 16 MiB worker stack.", "DESIGN.md §5 C05")
CLAIMED["C09"] = ("algebraic-law property testing over representation classes (proptest-generated value sets; all ordered pairs/triples) + exhaustive numeric boundary grid; thorough adds a libFuzzer campaign",
    "Exploration: reflexive/symmetric/transitive ==, hash/dict/set coherence (Rust-side hashes and in-language lookups below and above the index threshold), ordering laws and sort stability over generated value sets; every ordered pair of the numeric grid is enumerated each run.",
    "Laws are taken from the property text; NaN == NaN per the Starlark spec quoted in float.rs.", "DESIGN.md §5 C09")
CLAIMED["C10"] = ("differential testing against CPython integers (exhaustive boundary-grid pairs x operators x {folded, run time}) + random 256-bit operands; i128/BigInt range oracle for host conversions",
    "Exploration with an exhaustively enumerated boundary grid: every operator on every ordered grid pair, literal and opaque operands, compared with CPython; random large operands, int(str, base), int(float), host alloc/unpack.",
    "Trusts CPython int arithmetic (independent of num-bigint) and Rust's i128/TryFrom for host ranges.", "DESIGN.md §5 C10")
CLAIMED["C12"] = ("exhaustive catalogue enumeration (kind x construct x mutation x alias x exit) against an explicit lock model, with proptest re-sampling for replay",
    "Exploration, exhaustive over the depth<=3 catalogue: every attempt inside an iteration must fail and leave the container intact; the first mutation after any exit must succeed.",
    "The model is the property text; which builtins hold the lock during callbacks was read from the stdlib sources.", "DESIGN.md §5 C12")
CLAIMED["C08"] = ("differential testing against CPython's argument binding over an enumerated signature x call space, across call paths (direct, via variable, frozen+loaded, partial, host eval_function, native ParametersSpec, natives declared through #[starlark_module], can_fill_with_args)",
    "Exploration with exhaustive enumeration of signatures (<= 4 named parameters quick, 5 thorough) and a strided (quick) or complete (thorough) call list; every call path must produce the binding CPython produces or fail when CPython fails.",
    "Trusts CPython's binder for the shared def/call syntax; Starlark-only syntax restrictions (one * and one **, order) are respected by the generator.", "DESIGN.md §5 C08")
CLAIMED["C16"] = ("exhaustive enumeration of type expressions (depth<=1 complete, depth 2 sampled) x value catalogue against a reference denotation from docs/types.md, plus cross-path agreement (isinstance / annotations / eval_type / host TypeCompiled, frozen and unfrozen); unions of parametrised containers and atom x depth-1 unions enumerated; random depth-3 types; thorough adds a libFuzzer campaign",
    "Exploration, exhaustive for the enumerated sub-space: every check path must give the documented answer (where the doc settles it) and all paths must agree before and after freezing.",
    "Reference denotation is hand-written from docs/types.md; undocumented combinations are only checked for path agreement.", "DESIGN.md §5 C16")
CLAIMED["C02"] = ("metamorphic property testing: generated programs vs opacified variants (constants/callees hidden behind an opaque native) x {module level, def in defining module, frozen+loaded, host call}; exhaustive marker subsets for hand-written optimiser targets; enumerated inlining table (signature x optimiser-shaped body x call shape, visible vs hidden callee) and caller-context table; closures crossing frozen modules; thorough adds a coverage-guided libFuzzer campaign over the same generator",
    "Exploration: all variants of a program must give identical transcript, outcome and error message; the unfrozen/frozen and hidden/visible configurations compile genuinely different code.",
    "Trusts that opaque() hides values from the optimiser and that def-wrapping is meaning preserving (cross-checked by C01 against CPython).", "DESIGN.md §5 C02")
CLAIMED["C03"] = ("metamorphic property testing over GC schedules (forced collections at evaluator safepoints via hook H1, freed arenas poisoned via hook H2), generated programs with cyclic/aliased/closure-held/embedder-set values, multi-call histories on one module, generated heap shapes (cycles through every container kind, root order, dropped roots); thorough adds a coverage-guided libFuzzer campaign over the same generator",
    "Exploration: transcript, outcomes, final globals and extra_value must be identical with GC disabled, default, every k-th safepoint (k=1,2,3,7) and a generated safepoint mask; a dangling reference reads poison and crashes the isolated worker.",
    "Relies on cfg(starlark_verif) hooks H1/H2; only safepoints the evaluator itself offers are used.", "DESIGN.md §5 C03")
CLAIMED["C04"] = ("property testing with generated exporting modules: round-trip oracle (host encoding, read-only catalogue before/after freeze through frozen and local observers) and a mutation catalogue attempted through every path to every reachable container from 1..3 importers; hashable object leaves (functions, closures, enum values) as keys/elements with self-lookup and host get_hashed before/after freeze; thorough adds a libFuzzer campaign",
    "Exploration: every generated export must look the same after freezing (host API and in-language read-only catalogue) and every mutation through any path/accessor/closure/default argument must fail and leave the value unchanged.",
    "The read-only and mutation catalogues are hand-written from the language operations listed in the property.", "DESIGN.md §5 C04")
CLAIMED["C07"] = ("generated-input validity checking over histories: every builtin/method (discovered at run time) x hostile argument tuples, ill-typed operators/statements, failures at generated depths, constant-substituted programs; located-error predicate and recovery probe after every error; worker-process isolation; frozen (loaded) and deeply nested hostile values; enumerated callable x value part with per-call crash attribution; thorough adds a libFuzzer campaign",
    "Exploration: every evaluation must end in Ok/Err (no panic/abort/Internal), errors must carry valid spans and resolvable call stacks, and after each error the same evaluator/module must behave like a fresh one on a probe program.",
    "Repeat/shift counts are bounded; resource-limit errors are accepted outcomes.", "DESIGN.md §5 C07")
CLAIMED["C15"] = ("model-based property testing: exhaustive (shape x limit x depth-around-threshold) enumeration against a frame-count model, and proptest-generated tick workloads with statically known tick counts against budget/cancellation models; rounds on a reused evaluator (limits must still be honoured after an earlier limit error)",
    "Exploration, exhaustive around every configured call-depth limit for 11 recursion shapes (unfrozen and frozen): success iff frames <= limit, StackOverflow otherwise, never a crash, evaluator reusable. Tick budgets and cancellation are checked against an exact count model with the documented 1000-tick check interval.",
    "Frame constants calibrated on the unchanged tree; tick model excludes native-callback and known-method calls (documented as not counted).", "DESIGN.md §5 C15")
CLAIMED["C14"] = ("differential testing of the implementation against itself across fresh processes with different memory layouts (ASLR on/off, allocation noise, environment size, evaluating thread, per-process hash seeds) and repeated in-process runs; byte-equality oracle on the full observable output incl. errors, lint and static-typecheck output; error zoo (ill-typed calls of every builtin with hostile arguments) and diagnostic-rich statement groups in every batch",
    "Exploration: batches of generated programs (with determinism probes and failing statements that produce suggestions and call stacks) must produce byte-identical observations in four differently laid-out processes and on repetition.",
    "Layout differences are induced, not enumerated; a dependence that needs a specific address pattern can stay hidden.", "DESIGN.md §5 C14")
CLAIMED["C13"] = ("stateful property testing of drop-order histories over an object graph (frozen modules, load chains, owned handles, modules built from handles, temporary Globals), invariant checked after every step, freed arenas poisoned (hook H2), drops also on other threads; forwarding heaps (add_to_frozen_heap), Globals built from handles, modules built through import_public_symbols; thorough adds a libFuzzer campaign",
    "Exploration: after every step every value still reachable from a live root must encode exactly as at creation (values read through add_to_heap and by_ref, functions called); a premature release reads 0x5A poison and crashes the isolated worker or changes the encoding.",
    "Relies on hook H2; only library-owned reference operations are generated (documented caller obligations are excluded).", "DESIGN.md §5 C13")
CLAIMED["C06"] = ("differential testing of the parse tree against CPython's ast on the shared grammar (grammar-directed generation without redundant parentheses, exhaustive operator-pair table, token mutations for acceptance) and a print/parse round-trip with fixed-point check on generated, corpus and mutated modules",
    "Exploration with an exhaustively enumerated operator-pair table: identical S-expressions from the Starlark AST and CPython's ast; acceptance agreement inside the shared grammar; print(parse(x)) re-parses to an equal tree and is a fixed point.",
    "Trusts CPython's grammar for the shared subset and the harness's two S-expression printers; the outside-shared list is explicit in c06.rs.", "DESIGN.md §5 C06")
CLAIMED["C17"] = ("property testing of the static checker: no-crash and in-process determinism on generated, mutated and corpus modules; zero-error oracle on a type-directed well-typed-by-construction generator (with annotations); soundness of committed types checked by evaluating the module and testing isinstance of the bound values",
    "Exploration: typecheck() must return and be repeatable on any parseable module, report nothing on well-typed-by-construction modules, and every definite type it assigns (function result types; module variables are Any in this implementation) must hold for the evaluated value.",
    "Well-typedness rests on the generator's type discipline (cross-checked by running the module); only expressible, Any-free types count as committed.", "DESIGN.md §5 C17")
CLAIMED["C18"] = ("metamorphic property testing over instrumentation configurations (each ProfileMode, no-op statement hook, debug adapter with generated breakpoint subsets / conditions / stepping patterns) with a channel-driven controller thread; model of stops derived from marker statements",
    "Exploration: every configuration must leave transcript and outcome unchanged; stops on breakpointed marker lines inside defs must match marker executions one-to-one in order, and variables shown at a stop must equal the values the marker records.",
    "Only scalar locals are compared with the debugger's rendering; a silent evaluation thread (30 s) is inconclusive.", "DESIGN.md §5 C18")
CLAIMED["C19"] = ("property testing of an in-memory language server over request histories: validity predicate for every returned range under UTF-16, and a differential resolution oracle (the document is executed with scope-tagged bindings and probes; go-to-definition must land on a binding of the scope the program actually read); independent line/character recomputation for error spans, for every AST node span and for run-time errors with call stacks; loads across files; completion and hover answers range-checked",
    "Exploration: every request answered, server stops after exit, every range valid for its document, definition agrees with the running program's scoping for every use site of generated shadowing-heavy documents (with non-ASCII text, CRLF), across didOpen/didChange/didClose histories.",
    "The generator's scope/tag bookkeeping and the harness LspContext (file map) are trusted; unanswered requests are inconclusive.", "DESIGN.md §5 C19")
CLAIMED["C20"] = ("stress-based property testing with a sequential-equivalence oracle: generated per-thread workloads over shared frozen modules run in fresh processes under several thread schedules (barrier / staggered / over-subscribed / concurrent build), compared with each workload run alone; arenas poisoned on drop (hook H2); drop storm on heaps sharing arena chunks released simultaneously by persistent dropper threads",
    "Exploration: each thread's transcript must equal the transcript of the same workload run alone; any crash of a concurrent child is a violation. The OS schedule is perturbed, not controlled, so this is the weakest claim of the set.",
    "Does not own the scheduler (loom/shuttle would need the atomics in the code under test replaced); first-use races are exercised by fresh processes.", "DESIGN.md §5 C20, §10")
NOT_YET = {}

def main():
    props = [json.loads(l) for l in open('/verif/properties.jsonl')]
    checks = []
    na = []
    for p in props:
        i = p['id']
        if i in CLAIMED:
            tech, text, note, ref = CLAIMED[i]
            checks.append({
                "property_id": i,
                "quick_cmd": f"./check {i} --tier quick",
                "thorough_cmd": f"./check {i} --tier thorough",
                "evidence_file": f"/verif/evidence/{i}.json",
                "replay_cmd_template": f"./check {i} --replay {{path}}",
                "engine": "svf",
                "level_claimed": {"category": "exploration", "text": text, "design_ref": ref},
                "level_note": note,
                "technique": tech,
            })
        else:
            na.append({"property_id": i, "reason": NOT_YET.get(i, "check not built yet in this round (design exists in DESIGN.md §5); will be claimed once its generator, oracle and sensitivity test exist")})
    m = {
        "version": 1,
        "setup_cmd": "cd /verif/harness && CARGO_NET_OFFLINE=true cargo build --profile checked && python3 /verif/oracle/py_oracle.py --selftest",
        "hooks": {
            "guard": "--cfg starlark_verif",
            "enable": "harness/.cargo/config.toml sets rustflags = [\"--cfg\", \"starlark_verif\"]; /repo crates are path dependencies, so every check rebuilds them from the working tree with the hooks on",
            "baseline_off_cmd": "cd /repo && cargo test --workspace --no-fail-fast --offline",
            "source_commits": HOOKS,
            "add_only": True,
        },
        "engines": [{"name": "svf", "path": "/verif/harness", "serves_properties": sorted(CLAIMED), "kind_free_text": "Rust property-testing harness: choice-sequence generators driven by proptest TestRunner (seeded from VERIF_SEED), supervisor/worker process isolation, CPython differential oracle worker, replay files; cargo-fuzz targets under /verif/fuzz reuse the same decoders"}],
        "checks": checks,
        "not_applicable": na,
        "notes": "exit 0 held / 1 VIOLATION / 2 inconclusive (build failure, oracle death, watchdog, starved generator). Known findings: /verif/known_findings.txt.",
    }
    json.dump(m, open('/verif/MANIFEST.json', 'w'), indent=1)

HOOKS = sys.argv[1:] if len(sys.argv) > 1 else []
if __name__ == '__main__':
    main()
