#!/usr/bin/env python3
"""Persistent CPython oracle worker (stdlib only). Line protocol: one JSON request per line, one JSON answer per line."""
import sys, json

assert sys.version_info[:2] >= (3, 9)

def handle(req):
    op = req.get("op")
    if op == "hello":
        return {"ok": True, "version": list(sys.version_info[:3])}
    return {"ok": False, "error": "unknown op"}

def main():
    if len(sys.argv) > 1 and sys.argv[1] == "--selftest":
        assert handle({"op": "hello"})["ok"]
        print("py_oracle selftest ok")
        return
    out = sys.stdout
    for line in sys.stdin:
        line = line.strip()
        if not line:
            continue
        try:
            resp = handle(json.loads(line))
        except BaseException as e:  # noqa
            resp = {"ok": False, "error": "oracle exception: %r" % (e,)}
        out.write(json.dumps(resp) + "\n")
        out.flush()

if __name__ == "__main__":
    main()
