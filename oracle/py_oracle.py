#!/usr/bin/env python3
"""Persistent CPython oracle worker (stdlib only).

Line protocol: one JSON request per line on stdin, one JSON answer per line on stdout.
ops: hello | exec | ast | intops | bind
"""
import sys, json, struct, signal, ast

assert sys.version_info[:2] >= (3, 9)
try:
    import resource
    # A runaway allocation in one C-level operation cannot be interrupted by the alarm: cap the
    # address space so it fails fast with MemoryError (reported as outcome "timeout" = case skipped).
    resource.setrlimit(resource.RLIMIT_AS, (4 << 30, 4 << 30))
except Exception:  # noqa
    pass
sys.setrecursionlimit(20000)
try:
    sys.set_int_max_str_digits(0)
except AttributeError:
    pass


class StarlarkFail(Exception):
    pass


class OracleTimeout(BaseException):
    pass


def enc_str(s):
    out = ['"']
    for c in s:
        o = ord(c)
        if c == '\\':
            out.append('\\\\')
        elif c == '"':
            out.append('\\"')
        elif c == '\n':
            out.append('\\n')
        elif c == '\r':
            out.append('\\r')
        elif c == '\t':
            out.append('\\t')
        elif o < 0x20 or o > 0x7e:
            out.append('\\u{%x}' % o)
        else:
            out.append(c)
    out.append('"')
    return ''.join(out)


def encode(v, stack=None):
    if stack is None:
        stack = []
    if v is None:
        return 'N'
    if v is True:
        return 'T'
    if v is False:
        return 'F'
    if isinstance(v, int):
        return str(v)
    if isinstance(v, str):
        return enc_str(v)
    if isinstance(v, float):
        return 'f%016x' % struct.unpack('>Q', struct.pack('>d', v))[0]
    if any(s is v for s in stack):
        return '<cycle>'
    stack.append(v)
    try:
        if isinstance(v, list):
            return '[' + ','.join(encode(x, stack) for x in v) + ']'
        if isinstance(v, tuple):
            return '(' + ''.join(encode(x, stack) + ',' for x in v) + ')'
        if isinstance(v, dict):
            return '{' + ','.join(encode(k, stack) + ':' + encode(x, stack) for k, x in v.items()) + '}'
        if isinstance(v, range):
            return 'o:range:' + repr(v)
        return 'o:%s' % type(v).__name__
    finally:
        stack.pop()


def make_prelude(tx):
    def emit(x):
        tx.append(encode(x))
        return x

    def opaque(x):
        return x

    def fail(*args):
        raise StarlarkFail(' '.join(str(a) for a in args))

    return {'emit': emit, 'opaque': opaque, 'fail': fail, '__builtins__': __builtins__}


def _alarm(signum, frame):
    raise OracleTimeout()


signal.signal(signal.SIGALRM, _alarm)


def op_exec(req):
    src = req['src']
    tx = []
    ns = make_prelude(tx)
    prelude_names = set(ns.keys())
    outcome = 'ok'
    msg = ''
    try:
        code = compile(src, 'prog.py', 'exec')
    except SyntaxError as e:
        return {'ok': True, 'outcome': 'syntax', 'msg': str(e), 'tx': [], 'vars': []}
    signal.setitimer(signal.ITIMER_REAL, float(req.get('timeout', 3.0)))
    try:
        try:
            exec(code, ns)
        finally:
            signal.setitimer(signal.ITIMER_REAL, 0)
    except StarlarkFail as e:
        outcome, msg = 'fail', str(e)
    except OracleTimeout:
        outcome = 'timeout'
    except MemoryError:
        outcome = 'timeout'
    except RecursionError as e:
        outcome, msg = 'error', 'RecursionError'
    except Exception as e:  # noqa
        outcome, msg = 'error', '%s: %s' % (type(e).__name__, e)
    vars_ = []
    if req.get('vars'):
        for k in sorted(ns.keys()):
            if k in prelude_names or k.startswith('_'):
                continue
            v = ns[k]
            if callable(v):
                continue
            vars_.append([k, encode(v)])
    return {'ok': True, 'outcome': outcome, 'msg': msg, 'tx': tx, 'vars': vars_}


# ------------------------------------------------------------------------------------------
# integer operations (C10): batches of [op, a, b] with decimal-string operands

def _int_op(op, a, b):
    if op == '+': return a + b
    if op == '-': return a - b
    if op == '*': return a * b
    if op == '//': return a // b
    if op == '%': return a % b
    if op == '&': return a & b
    if op == '|': return a | b
    if op == '^': return a ^ b
    if op == '<<':
        if b > 100000: raise OverflowError()
        return a << b
    if op == '>>': return a >> b
    if op == '==': return a == b
    if op == '!=': return a != b
    if op == '<': return a < b
    if op == '<=': return a <= b
    if op == '>': return a > b
    if op == '>=': return a >= b
    if op == 'neg': return -a
    if op == 'pos': return +a
    if op == 'inv': return ~a
    if op == 'abs': return abs(a)
    if op == 'bool': return bool(a)
    if op == 'str': return str(a)
    if op == 'hex': return '%x' % a
    if op == 'oct': return '%o' % a
    if op == 'dec': return '%d' % a
    if op == 'float': return float(a)
    raise ValueError(op)


def op_intops(req):
    out = []
    for item in req['items']:
        op, a = item[0], int(item[1])
        b = int(item[2]) if len(item) > 2 and item[2] is not None else None
        try:
            r = _int_op(op, a, b)
            out.append(encode(r))
        except (ZeroDivisionError, ValueError, OverflowError):
            out.append('ERR')
    return {'ok': True, 'results': out}


def op_parse_int(req):
    out = []
    for s, base in req['items']:
        try:
            if base is None:
                out.append(encode(int(s)))
            else:
                out.append(encode(int(s, base)))
        except (ValueError, TypeError):
            out.append('ERR')
    return {'ok': True, 'results': out}


def op_int_float(req):
    out = []
    for kind, s in req['items']:
        try:
            if kind == 'int_of_float':
                out.append(encode(int(struct.unpack('>d', struct.pack('>Q', int(s, 16)))[0])))
            else:
                out.append(encode(float(int(s))))
        except (ValueError, OverflowError):
            out.append('ERR')
    return {'ok': True, 'results': out}


# ------------------------------------------------------------------------------------------
# AST S-expressions (C06)

BINOPS = {ast.Add: '+', ast.Sub: '-', ast.Mult: '*', ast.Mod: '%', ast.Div: '/', ast.FloorDiv: '//', ast.BitAnd: '&',
          ast.BitOr: '|', ast.BitXor: '^', ast.LShift: '<<', ast.RShift: '>>'}
CMPOPS = {ast.Eq: '==', ast.NotEq: '!=', ast.Lt: '<', ast.Gt: '>', ast.LtE: '<=', ast.GtE: '>=', ast.In: 'in', ast.NotIn: 'notin'}
AUGOPS = {ast.Add: '+=', ast.Sub: '-=', ast.Mult: '*=', ast.Div: '/=', ast.FloorDiv: '//=', ast.Mod: '%=', ast.BitAnd: '&=',
          ast.BitOr: '|=', ast.BitXor: '^=', ast.LShift: '<<=', ast.RShift: '>>='}


class NotShared(Exception):
    pass


def sx_block(stmts):
    return '(block' + ''.join(' ' + sx_stmt(s) for s in stmts) + ')'


def sx_params(a):
    out = []
    if a.posonlyargs:
        raise NotShared('posonly')
    n_no_default = len(a.args) - len(a.defaults)
    for i, p in enumerate(a.args):
        if p.annotation is not None:
            raise NotShared('annotation')
        if i >= n_no_default:
            out.append('(param %s %s)' % (p.arg, sx_expr(a.defaults[i - n_no_default])))
        else:
            out.append('(param %s)' % p.arg)
    if a.vararg is not None:
        out.append('(star %s)' % a.vararg.arg)
    elif a.kwonlyargs:
        out.append('(barestar)')
    for p, d in zip(a.kwonlyargs, a.kw_defaults):
        if d is None:
            out.append('(param %s)' % p.arg)
        else:
            out.append('(param %s %s)' % (p.arg, sx_expr(d)))
    if a.kwarg is not None:
        out.append('(starstar %s)' % a.kwarg.arg)
    return '(params' + ''.join(' ' + x for x in out) + ')'


def sx_target(t):
    if isinstance(t, ast.Name):
        return '(id %s)' % t.id
    if isinstance(t, (ast.Tuple, ast.List)):
        return '(tuple' + ''.join(' ' + sx_target(x) for x in t.elts) + ')'
    if isinstance(t, ast.Subscript):
        if isinstance(t.slice, (ast.Slice, ast.Tuple)):
            raise NotShared('slice target')
        return '(index %s %s)' % (sx_expr(t.value), sx_expr(t.slice))
    if isinstance(t, ast.Attribute):
        return '(dot %s %s)' % (sx_expr(t.value), t.attr)
    raise NotShared('target ' + type(t).__name__)


def sx_stmt(s):
    if isinstance(s, ast.Break):
        return '(break)'
    if isinstance(s, ast.Continue):
        return '(continue)'
    if isinstance(s, ast.Pass):
        return '(pass)'
    if isinstance(s, ast.Return):
        return '(return)' if s.value is None else '(return %s)' % sx_expr(s.value)
    if isinstance(s, ast.Expr):
        return '(expr %s)' % sx_expr(s.value)
    if isinstance(s, ast.Assign):
        if len(s.targets) != 1:
            raise NotShared('multi-assign')
        return '(assign %s %s)' % (sx_target(s.targets[0]), sx_expr(s.value))
    if isinstance(s, ast.AugAssign):
        return '(augassign %s %s %s)' % (AUGOPS[type(s.op)], sx_target(s.target), sx_expr(s.value))
    if isinstance(s, ast.If):
        if s.orelse:
            return '(ifelse %s %s %s)' % (sx_expr(s.test), sx_block(s.body), sx_block(s.orelse))
        return '(if %s %s)' % (sx_expr(s.test), sx_block(s.body))
    if isinstance(s, ast.For):
        if s.orelse:
            raise NotShared('for-else')
        return '(for %s %s %s)' % (sx_target(s.target), sx_expr(s.iter), sx_block(s.body))
    if isinstance(s, ast.FunctionDef):
        if s.decorator_list or s.returns is not None:
            raise NotShared('decorator/returns')
        return '(def %s %s %s)' % (s.name, sx_params(s.args), sx_block(s.body))
    raise NotShared('stmt ' + type(s).__name__)


def sx_clauses(gens):
    out = []
    for g in gens:
        if g.is_async:
            raise NotShared('async')
        out.append('(for %s %s)' % (sx_target(g.target), sx_expr(g.iter)))
        for c in g.ifs:
            out.append('(if %s)' % sx_expr(c))
    return ''.join(' ' + x for x in out)


def sx_expr(e):
    if isinstance(e, ast.Tuple):
        return '(tuple' + ''.join(' ' + sx_expr(x) for x in e.elts) + ')'
    if isinstance(e, ast.Attribute):
        return '(dot %s %s)' % (sx_expr(e.value), e.attr)
    if isinstance(e, ast.Call):
        args = []
        for a in e.args:
            if isinstance(a, ast.Starred):
                args.append('(star %s)' % sx_expr(a.value))
            else:
                args.append('(pos %s)' % sx_expr(a))
        for k in e.keywords:
            if k.arg is None:
                args.append('(starstar %s)' % sx_expr(k.value))
            else:
                args.append('(named %s %s)' % (k.arg, sx_expr(k.value)))
        return '(call %s%s)' % (sx_expr(e.func), ''.join(' ' + a for a in args))
    if isinstance(e, ast.Subscript):
        sl = e.slice
        if isinstance(sl, ast.Slice):
            parts = [sx_expr(x) if x is not None else '_' for x in (sl.lower, sl.upper, sl.step)]
            return '(slice %s %s)' % (sx_expr(e.value), ' '.join(parts))
        if isinstance(sl, ast.Tuple):
            raise NotShared('tuple subscript')
        return '(index %s %s)' % (sx_expr(e.value), sx_expr(sl))
    if isinstance(e, ast.Name):
        return '(id %s)' % e.id
    if isinstance(e, ast.Lambda):
        return '(lambda %s %s)' % (sx_params(e.args), sx_expr(e.body))
    if isinstance(e, ast.Constant):
        v = e.value
        if v is True or v is False or v is None:
            return '(id %s)' % v
        if isinstance(v, int):
            return '(int %d)' % v
        if isinstance(v, float):
            return '(float %016x)' % struct.unpack('>Q', struct.pack('>d', v))[0]
        if isinstance(v, str):
            return '(str %s)' % enc_str(v)
        raise NotShared('constant ' + type(v).__name__)
    if isinstance(e, ast.UnaryOp):
        name = {ast.Not: 'not', ast.USub: 'neg', ast.UAdd: 'uplus', ast.Invert: 'invert'}[type(e.op)]
        return '(%s %s)' % (name, sx_expr(e.operand))
    if isinstance(e, ast.BinOp):
        if type(e.op) not in BINOPS:
            raise NotShared('binop')
        return '(binop %s %s %s)' % (BINOPS[type(e.op)], sx_expr(e.left), sx_expr(e.right))
    if isinstance(e, ast.BoolOp):
        name = 'and' if isinstance(e.op, ast.And) else 'or'
        acc = sx_expr(e.values[0])
        for v in e.values[1:]:
            acc = '(binop %s %s %s)' % (name, acc, sx_expr(v))
        return acc
    if isinstance(e, ast.Compare):
        if len(e.ops) != 1:
            raise NotShared('chained comparison')
        if type(e.ops[0]) not in CMPOPS:
            raise NotShared('is')
        return '(binop %s %s %s)' % (CMPOPS[type(e.ops[0])], sx_expr(e.left), sx_expr(e.comparators[0]))
    if isinstance(e, ast.IfExp):
        return '(ifexp %s %s %s)' % (sx_expr(e.test), sx_expr(e.body), sx_expr(e.orelse))
    if isinstance(e, ast.List):
        return '(list' + ''.join(' ' + sx_expr(x) for x in e.elts) + ')'
    if isinstance(e, ast.Dict):
        items = []
        for k, v in zip(e.keys, e.values):
            if k is None:
                raise NotShared('dict unpack')
            items.append('(%s %s)' % (sx_expr(k), sx_expr(v)))
        return '(dict' + ''.join(' ' + x for x in items) + ')'
    if isinstance(e, ast.ListComp):
        return '(listcomp %s%s)' % (sx_expr(e.elt), sx_clauses(e.generators))
    if isinstance(e, ast.DictComp):
        return '(dictcomp %s %s%s)' % (sx_expr(e.key), sx_expr(e.value), sx_clauses(e.generators))
    raise NotShared('expr ' + type(e).__name__)


def op_ast(req):
    src = req['src']
    try:
        tree = ast.parse(src)
    except (SyntaxError, ValueError, MemoryError, RecursionError) as e:
        return {'ok': True, 'accepted': False, 'msg': str(e)}
    if req.get('compile', True):
        try:
            compile(src, 'x.py', 'exec')
        except (SyntaxError, ValueError) as e:
            return {'ok': True, 'accepted': False, 'msg': str(e)}
    try:
        sexp = sx_block(tree.body)
    except NotShared as e:
        return {'ok': True, 'accepted': True, 'shared': False, 'why': str(e)}
    except RecursionError:
        return {'ok': True, 'accepted': True, 'shared': False, 'why': 'recursion'}
    return {'ok': True, 'accepted': True, 'shared': True, 'sexp': sexp}


# ------------------------------------------------------------------------------------------
# argument binding (C08)

def op_bind(req):
    """req: sig (python parameter list source), params (names in order), calls: list of python call-argument sources."""
    ns = {}
    names = req['params']
    body = 'def f(%s):\n    return (%s,)\n' % (req['sig'], ', '.join(names)) if names else 'def f(%s):\n    return ()\n' % req['sig']
    try:
        exec(body, ns)
    except SyntaxError as e:
        return {'ok': True, 'defines': False, 'msg': str(e)}
    f = ns['f']
    env = {'f': f, 'T': None}
    out = []
    for call in req['calls']:
        try:
            r = eval('f(%s)' % call, {'f': f, 'NI': 7})
            out.append(encode(r))
        except SyntaxError:
            out.append('SYNTAX')
        except TypeError:
            out.append('ERR')
    return {'ok': True, 'defines': True, 'results': out}


HANDLERS = {
    'exec': op_exec, 'intops': op_intops, 'parse_int': op_parse_int, 'int_float': op_int_float, 'ast': op_ast, 'bind': op_bind,
}


def handle(req):
    op = req.get('op')
    if op == 'hello':
        return {'ok': True, 'version': list(sys.version_info[:3])}
    h = HANDLERS.get(op)
    if h is None:
        return {'ok': False, 'error': 'unknown op'}
    return h(req)


def selftest():
    assert handle({'op': 'hello'})['ok']
    r = handle({'op': 'exec', 'src': 'x = emit([1, "é", (2,), {"a": None}])\nemit(1 // 0)\n', 'vars': True})
    assert r['outcome'] == 'error' and r['tx'] == ['[1,"\\u{e9}",(2,),{"a":N}]'], r
    r = handle({'op': 'intops', 'items': [['//', '-7', '2'], ['<<', '1', '-1'], ['%', '5', '0']]})
    assert r['results'] == ['-4', 'ERR', 'ERR'], r
    r = handle({'op': 'ast', 'src': 'x = a + b * c\n'})
    assert r['sexp'] == '(block (assign (id x) (binop + (id a) (binop * (id b) (id c)))))', r
    r = handle({'op': 'bind', 'sig': 'a, b=2, *c, d, **e', 'params': ['a', 'b', 'c', 'd', 'e'], 'calls': ['1, d=4', '1']})
    assert r['results'] == ['(1,2,(),4,{},)', 'ERR'], r
    print('py_oracle selftest ok')


def main():
    if len(sys.argv) > 1 and sys.argv[1] == '--selftest':
        selftest()
        return
    out = sys.stdout
    for line in sys.stdin:
        line = line.strip()
        if not line:
            continue
        try:
            resp = handle(json.loads(line))
        except OracleTimeout:
            resp = {'ok': False, 'error': 'timeout'}
        except BaseException as e:  # noqa
            resp = {'ok': False, 'error': 'oracle exception: %r' % (e,)}
        out.write(json.dumps(resp) + '\n')
        out.flush()


if __name__ == '__main__':
    main()
